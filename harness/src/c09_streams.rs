//! C09 (c): unbounded lazily generated streams.
//!
//! A stream is `valid part ‖ tail ‖ filler^∞`. The valid part ends right after
//! a complete element (or is empty), i.e. at the point where the parser resets
//! its per-element byte counter; `tail` opens the offending construct and
//! `filler` repeats for ever. The reader counts the bytes the parser consumes.

use crate::engine::*;
use rpki::rrdp::{Delta, NotificationFile, Snapshot};
use serde::{Deserialize, Serialize};
use std::io::{self, BufRead, Read};
use std::sync::{Condvar, Mutex};

const HEADER_LIMIT: u64 = 1_000_000;
const FILE_LIMIT: u64 = 100_000_000;
/// The harness reader gives up this far behind the expected stop.
const RUNAWAY: u64 = 16 << 20;

const NS: &str = "http://www.ripe.net/rpki/rrdp";
const SESSION: &str = "9df4b597-af9e-4dca-bdda-719cce2c4e28";

#[derive(Clone, Copy, Debug, Serialize, Deserialize, PartialEq, Eq)]
pub enum Target {
    Notification,
    Snapshot,
    Delta,
}

impl Target {
    fn root(self) -> &'static str {
        match self {
            Target::Notification => "notification",
            Target::Snapshot => "snapshot",
            Target::Delta => "delta",
        }
    }
}

#[derive(Clone, Debug, Serialize, Deserialize)]
pub struct StreamSpec {
    pub target: Target,
    /// the offending construct starts in or before the root element: the valid
    /// part is empty
    pub in_root: bool,
    /// number of complete valid child elements before the offending construct
    pub n_before: u8,
    pub tail: String,
    pub filler: String,
    pub bufsize: u32,
}

//------------ lazy reader ------------------------------------------------------------

pub struct Lazy {
    prefix: Vec<u8>,
    /// filler repeated so that any window of `bufsize` bytes can be copied at once
    block: Vec<u8>,
    flen: usize,
    bufsize: usize,
    buf: Vec<u8>,
    pos: usize,
    /// bytes handed out through consume()
    pub consumed: u64,
    /// bytes generated into buffers
    generated: u64,
    cap: u64,
    pub capped: bool,
    pub fills: u64,
}

impl Lazy {
    pub fn new(prefix: Vec<u8>, filler: &[u8], bufsize: usize, cap: u64) -> Self {
        assert!(!filler.is_empty() && bufsize > 0);
        let mut block = Vec::new();
        while block.len() < bufsize + filler.len() {
            block.extend_from_slice(filler);
        }
        Lazy {
            prefix,
            block,
            flen: filler.len(),
            bufsize,
            buf: Vec::with_capacity(bufsize),
            pos: 0,
            consumed: 0,
            generated: 0,
            cap,
            capped: false,
            fills: 0,
        }
    }

    fn refill(&mut self) {
        self.buf.clear();
        self.pos = 0;
        let mut off = self.generated as usize;
        let plen = self.prefix.len();
        if off < plen {
            let n = (plen - off).min(self.bufsize);
            self.buf.extend_from_slice(&self.prefix[off..off + n]);
            off += n;
        }
        let want = self.bufsize - self.buf.len();
        if want > 0 {
            let phase = (off - plen) % self.flen;
            self.buf.extend_from_slice(&self.block[phase..phase + want]);
        }
        self.generated += self.buf.len() as u64;
    }
}

impl Read for Lazy {
    fn read(&mut self, out: &mut [u8]) -> io::Result<usize> {
        let b = self.fill_buf()?;
        let n = b.len().min(out.len());
        out[..n].copy_from_slice(&b[..n]);
        self.consume(n);
        Ok(n)
    }
}

impl BufRead for Lazy {
    fn fill_buf(&mut self) -> io::Result<&[u8]> {
        self.fills += 1;
        if self.consumed > self.cap {
            self.capped = true;
            return Err(io::Error::other("verif: stream reader cap reached (runaway parse)"));
        }
        if self.pos >= self.buf.len() {
            self.refill();
        }
        Ok(&self.buf[self.pos..])
    }
    fn consume(&mut self, n: usize) {
        let n = n.min(self.buf.len() - self.pos);
        self.pos += n;
        self.consumed += n as u64;
    }
}

//------------ building streams ---------------------------------------------------------

fn hash_hex(i: usize) -> String {
    format!("{:064x}", i as u128 + 1)
}

fn header(t: Target) -> String {
    format!("<{} xmlns=\"{}\" version=\"1\" session_id=\"{}\" serial=\"7\">", t.root(), NS, SESSION)
}

fn child(t: Target, i: usize) -> String {
    match t {
        Target::Notification => {
            if i == 0 {
                format!("\n  <snapshot uri=\"https://h.example/s.xml\" hash=\"{}\"/>", hash_hex(0))
            } else {
                format!("\n  <delta serial=\"{}\" uri=\"https://h.example/{}/d.xml\" hash=\"{}\"/>", 8 - i.min(7), i, hash_hex(i))
            }
        }
        Target::Snapshot => format!("\n  <publish uri=\"rsync://h.example/m/o{}.cer\">\n    QUJDRA==\n  </publish>", i),
        Target::Delta => {
            if i % 2 == 0 {
                format!("\n  <publish uri=\"rsync://h.example/m/o{}.cer\" hash=\"{}\">QUJD</publish>", i, hash_hex(i))
            } else {
                format!("\n  <withdraw uri=\"rsync://h.example/m/o{}.cer\" hash=\"{}\"/>", i, hash_hex(i))
            }
        }
    }
}

/// The valid part (ends where the parser resets its counter).
fn valid_part(s: &StreamSpec) -> String {
    if s.in_root {
        return String::new();
    }
    let mut out = header(s.target);
    for i in 0..s.n_before as usize {
        out.push_str(&child(s.target, i));
    }
    out
}

fn limit_of(s: &StreamSpec) -> u64 {
    if s.in_root || s.target == Target::Notification { HEADER_LIMIT } else { FILE_LIMIT }
}

/// (tail, filler) pairs for constructs in or before the root element.
fn root_tails(t: Target) -> Vec<(String, String)> {
    let r = t.root();
    let full = format!("<{} xmlns=\"{}\" version=\"1\" session_id=\"{}\" serial=\"", r, NS, SESSION);
    let v: Vec<(String, &str)> = vec![
        ("".into(), " "),
        ("".into(), "\n\t \r"),
        ("".into(), "<!-- c -->"),
        ("<!--".into(), "x"),
        ("<!--".into(), "-"),
        ("<?xml version=\"1.0\" encoding=\"UTF-8\"?>".into(), " "),
        ("<?xml version=\"1.0\"?><!DOCTYPE x [".into(), "<!ENTITY a \"b\">"),
        ("<!DOCTYPE ".into(), "x"),
        ("<!DOCTYPE x [".into(), "<"),
        ("<?".into(), "x"),
        ("<".into(), "a"),
        (format!("<{}", r), " "),
        (format!("<{} ", r), "a"),
        (format!("<{} a=\"", r), "x"),
        (format!("<{} a='", r), "x"),
        (format!("<{} a=\"", r), "&amp;"),
        (format!("<{} a=\"", r), ">"),
        (format!("<{} a=\"", r), "<"),
        (format!("<{} ", r), "a=\"b\" "),
        (format!("<{} ", r), "a=b "),
        (format!("<{} xmlns=\"", r), "x"),
        (format!("<{} session_id=\"", r), "9df4b597-"),
        (full.clone(), "1"),
        (full.clone(), "0"),
        (format!("<{} xmlns:", r), "a"),
        (format!("<x:{} xmlns:x=\"{}\" x:", r, NS), "a"),
        ("\u{feff}".into(), " "),
    ];
    v.into_iter().map(|(a, b)| (a, b.to_string())).collect()
}

/// (tail, filler) pairs for constructs between child elements.
fn inner_tails(t: Target) -> Vec<(String, String)> {
    let (c, uri) = match t {
        Target::Notification => ("delta", "https://h.example/"),
        Target::Snapshot | Target::Delta => ("publish", "rsync://h.example/m/"),
    };
    let mut v: Vec<(String, String)> = vec![
        ("".into(), " ".into()),
        ("".into(), "\n  ".into()),
        ("".into(), "x".into()),
        ("".into(), "&amp;".into()),
        ("".into(), "&#x20;".into()),
        ("".into(), "&".into()),
        ("".into(), "<!-- c -->".into()),
        ("".into(), "\n<!---->".into()),
        ("<!--".into(), "x".into()),
        ("<![CDATA[".into(), "x".into()),
        ("<![CDATA[".into(), "]]".into()),
        ("<?".into(), "x".into()),
        ("".into(), "<x>".into()),
        ("".into(), format!("<{}>", c)),
        ("<".into(), "a".into()),
        ("</".into(), "a".into()),
        (format!("<{}", c), " ".into()),
        (format!("<{} ", c), "a".into()),
        (format!("<{} uri=\"{}", c, uri), "a".into()),
        (format!("<{} uri=\"{}", c, uri), "&amp;".into()),
        (format!("<{} uri='{}", c, uri), "&apos;".into()),
        (format!("<{} hash=\"", c), "0".into()),
        (format!("<{} ", c), "uri=\"x\" ".into()),
        (format!("<{} serial=\"", c), "9".into()),
    ];
    // inside the content of a child element
    match t {
        Target::Notification => {
            let open = format!("<snapshot uri=\"https://h.example/s2.xml\" hash=\"{}\">", hash_hex(99));
            v.push((open.clone(), " ".into()));
            v.push((open.clone(), "x".into()));
            v.push((open.clone(), "<!-- c -->".into()));
            v.push((format!("{}</snapshot", open), " ".into()));
        }
        Target::Snapshot | Target::Delta => {
            let open = "<publish uri=\"rsync://h.example/m/z.cer\">".to_string();
            v.push((open.clone(), "QUJD".into()));
            v.push((open.clone(), "QUJD\n".into()));
            v.push((open.clone(), " ".into()));
            v.push((open.clone(), "=".into()));
            v.push((open.clone(), "&amp;".into()));
            v.push((open.clone(), "<x>".into()));
            v.push((format!("{}QUJD", open), "<!-- c -->".into()));
            v.push((format!("{}QUJD", open), " ".into()));
            v.push((format!("{}QUJD<!--", open), "x".into()));
            v.push((format!("{}QUJD</publish", open), " ".into()));
            if t == Target::Delta {
                let w = format!("<withdraw uri=\"rsync://h.example/m/z.cer\" hash=\"{}\">", hash_hex(5));
                v.push((w.clone(), " ".into()));
                v.push((w.clone(), "x".into()));
                v.push((w, "<!-- c -->".into()));
            }
        }
    }
    // after the end of the root element
    let end = format!("\n</{}>", t.root());
    for f in [" ", "\n", "<!-- c -->", "x", "<a/>", "&amp;"] {
        v.push((end.clone(), f.into()));
    }
    v.push((format!("{}<!--", end), "x".into()));
    v.push((format!("{}<?", end), "x".into()));
    v.push((format!("\n</{}", t.root()), " ".into()));
    v
}

fn all_streams(file_limit: bool, tier: Tier) -> Vec<StreamSpec> {
    let bufsizes: &[u32] = match (file_limit, tier) {
        (false, Tier::Quick) => &[8192, 997, 64, 65536],
        (false, Tier::Thorough) => &[8192, 997, 64, 4096, 65536, 1],
        (true, _) => &[8192, 65536, 1000],
    };
    let mut out = Vec::new();
    for t in [Target::Notification, Target::Snapshot, Target::Delta] {
        if !file_limit {
            for (i, (tail, filler)) in root_tails(t).into_iter().enumerate() {
                for (j, &b) in bufsizes.iter().enumerate() {
                    // bufsize 1 on a 1 MB stream is slow-ish: only for a third of the combos
                    if b == 1 && (i + j) % 3 != 0 {
                        continue;
                    }
                    out.push(StreamSpec { target: t, in_root: true, n_before: 0, tail: tail.clone(), filler: filler.clone(), bufsize: b });
                }
            }
        }
        let inner_is_file = t != Target::Notification;
        if inner_is_file == file_limit {
            for (i, (tail, filler)) in inner_tails(t).into_iter().enumerate() {
                for n_before in [0u8, 1, 3] {
                    for (j, &b) in bufsizes.iter().enumerate() {
                        if file_limit && (i + j + n_before as usize) % 3 != 0 {
                            continue; // one buffer size per (combo, n_before) for the expensive ones
                        }
                        if b == 1 && (i + j) % 3 != 0 {
                            continue;
                        }
                        out.push(StreamSpec { target: t, in_root: false, n_before, tail: tail.clone(), filler: filler.clone(), bufsize: b });
                    }
                }
            }
        }
    }
    out
}

//------------ running ---------------------------------------------------------------------

/// At most this many 100 MB streams at a time (each may buffer the whole
/// element).
static SLOTS: (Mutex<usize>, Condvar) = (Mutex::new(0), Condvar::new());
const MAX_SLOTS: usize = 8;

struct Slot;
impl Slot {
    fn take() -> Slot {
        let mut n = SLOTS.0.lock().unwrap_or_else(|e| e.into_inner());
        while *n >= MAX_SLOTS {
            n = SLOTS.1.wait(n).unwrap_or_else(|e| e.into_inner());
        }
        *n += 1;
        Slot
    }
}
impl Drop for Slot {
    fn drop(&mut self) {
        let mut n = SLOTS.0.lock().unwrap_or_else(|e| e.into_inner());
        *n -= 1;
        SLOTS.1.notify_one();
    }
}

fn run_stream(s: &StreamSpec, obs: &mut Obs) -> CheckResult {
    ensure!(!s.filler.is_empty() && s.bufsize > 0, "malformed case: empty filler or zero buffer");
    obs.nontrivial();
    let limit = limit_of(s);
    let _slot = if limit == FILE_LIMIT { Some(Slot::take()) } else { None };
    let valid = valid_part(s);
    let start = valid.len() as u64;
    let mut prefix = valid.into_bytes();
    prefix.extend_from_slice(s.tail.as_bytes());
    let bound = start + limit + 2 * s.bufsize as u64;
    let mut r = Lazy::new(prefix, s.filler.as_bytes(), s.bufsize as usize, bound + RUNAWAY);
    let res: Result<(), String> = match s.target {
        Target::Notification => NotificationFile::parse(&mut r).map(|_| ()).map_err(|e| e.to_string()),
        Target::Snapshot => Snapshot::parse(&mut r).map(|_| ()).map_err(|e| e.to_string()),
        Target::Delta => Delta::parse(&mut r).map(|_| ()).map_err(|e| e.to_string()),
    };
    obs.label(if limit == FILE_LIMIT { "file-limit" } else { "header-limit" });
    obs.label(if r.consumed > start + limit / 2 { "ran-to-limit" } else { "rejected-early" });
    ensure_sig!(
        !r.capped && r.consumed <= bound,
        "stream-over-bound",
        "{:?}: parser consumed {} bytes of an endless stream (tail {:?}, filler {:?}); offending construct starts at {}, limit {} => bound {} (reader cap hit: {})",
        s.target, r.consumed, s.tail, s.filler, start, limit, bound, r.capped
    );
    ensure_sig!(res.is_err(), "endless-stream-accepted", "{:?}: parse returned Ok on an endless stream (tail {:?}, filler {:?})", s.target, s.tail, s.filler);
    Ok(())
}

pub fn header_sub() -> Box<dyn SubCheck> {
    EnumSub {
        name: "streams-header",
        count: |t, _| all_streams(false, t).len() as u64,
        make: |t, _, i| all_streams(false, t)[i as usize].clone(),
        run: run_stream,
        exhaustive: true,
    }
    .boxed()
}

fn file_count(t: Tier) -> u64 {
    let all = all_streams(true, t).len() as u64;
    t.pick(32, 400).min(all)
}

pub fn file_sub() -> Box<dyn SubCheck> {
    EnumSub {
        name: "streams-file",
        count: |t, _| file_count(t),
        // a window of the combination table that rotates with the seed
        make: |t, seed, i| {
            let all = all_streams(true, t);
            let n = all.len() as u64;
            // stride co-prime with n spreads the window over the table
            let idx = (seed.wrapping_mul(file_count(t)).wrapping_add(i)).wrapping_mul(7) % n;
            all[idx as usize].clone()
        },
        run: run_stream,
        exhaustive: false,
    }
    .boxed()
}
