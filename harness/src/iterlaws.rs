//! Iterator laws for iterators handed out by the library.
//!
//! The properties speak of "the entries the iterator yields", "per-item
//! membership" and "prefix and provider iterators". An iterator type is free
//! to override `nth`, `count`, `last`, `size_hint`, `fold` … for speed; the
//! `Iterator` contract then requires those to agree with what repeated
//! `next()` yields. This module checks that agreement for any iterator the
//! harness obtains, so that a check that walks the items with `next()` also
//! covers callers that use the adaptors.
//!
//! Callers hand over the library's iterator itself, not wrapped in `map` or
//! the like: the std adaptors implement `nth`, `count`, `last` through
//! `next()` (or `fold`) and would hide an override behind them.
//!
//! Nothing here is specific to a property: `check` takes a factory producing
//! a fresh iterator and compares every adaptor with the item list obtained by
//! plain `next()` calls.

use crate::engine::*;
use std::fmt::Debug;

/// Positions worth probing in a sequence of `n` items.
fn probes(n: usize) -> Vec<usize> {
    let mut v = vec![0, 1, 2, n / 2, n.saturating_sub(2), n.saturating_sub(1), n, n + 1, n + 7];
    v.sort_unstable();
    v.dedup();
    v
}

/// Checks the adaptor laws for the iterator `make()` produces. `what` names
/// the iterator in messages, `sig` is the failure signature. At most `cap`
/// items are pulled (an iterator that yields more is not examined further
/// and `Ok(false)` is returned; callers use `check_jump` for those).
pub fn check<I, T>(what: &str, sig: &str, cap: usize, make: impl Fn() -> I) -> Result<bool, Fail>
where
    I: Iterator<Item = T>,
    T: PartialEq + Debug,
{
    check_inner(what, sig, cap, &make, |x| x)
}

/// The same for item types without `PartialEq`: items are compared through
/// their `Debug` rendering (the iterator itself is still the library's own).
pub fn check_debug<I, T>(what: &str, sig: &str, cap: usize, make: impl Fn() -> I) -> Result<bool, Fail>
where
    I: Iterator<Item = T>,
    T: Debug,
{
    check_inner(what, sig, cap, &make, |x| format!("{:?}", x))
}

fn check_inner<I, U, T>(what: &str, sig: &str, cap: usize, make: &impl Fn() -> I, key: impl Fn(U) -> T) -> Result<bool, Fail>
where
    I: Iterator<Item = U>,
    T: PartialEq + Debug,
{
    // every adaptor below is called on the library's iterator; `key` is applied to the items
    // it hands out
    macro_rules! keyed {
        ($e:expr) => {
            $e.map(|x| key(x))
        };
    }
    // reference: repeated next(), recording size_hint before every call
    let mut it = make();
    let mut items: Vec<T> = Vec::new();
    let mut hints: Vec<(usize, Option<usize>)> = Vec::new();
    loop {
        hints.push(it.size_hint());
        match it.next() {
            Some(x) => items.push(key(x)),
            None => break,
        }
        if items.len() > cap {
            return Ok(false);
        }
    }
    let n = items.len();
    for (i, (lo, hi)) in hints.iter().enumerate() {
        let left = n - i;
        if *lo > left || hi.map(|h| h < left).unwrap_or(false) {
            return Err(Fail::sig(
                sig,
                format!("{}: size_hint() = ({}, {:?}) after {} of {} items, {} still to come", what, lo, hi, i, n, left),
            ));
        }
    }
    let c = make().count();
    ensure_sig!(c == n, sig, "{}: count() = {} but next() yields {} items", what, c, n);
    let l = keyed!(make().last());
    ensure_sig!(l.as_ref() == items.last(), sig, "{}: last() = {:?} but the final item from next() is {:?}", what, l, items.last());
    for k in probes(n) {
        // nth on a fresh iterator, and what follows it
        let mut it = make();
        let got = keyed!(it.nth(k));
        ensure_sig!(got.as_ref() == items.get(k), sig, "{}: nth({}) = {:?} but item {} from next() is {:?} ({} items)", what, k, got, k, items.get(k), n);
        if k < n {
            let hint = it.size_hint();
            let mut rest: Vec<T> = Vec::new();
            for x in it {
                rest.push(key(x));
            }
            ensure_sig!(rest[..] == items[k + 1..], sig, "{}: after nth({}) the iterator yields {:?}, expected {:?}", what, k, rest, &items[k + 1..]);
            let left = n - k - 1;
            ensure_sig!(hint.0 <= left && hint.1.map(|h| h >= left).unwrap_or(true), sig,
                "{}: size_hint() = {:?} after nth({}), {} items still to come", what, hint, k, left);
        }
        // (what an exhausted iterator does on further calls is left open by the Iterator contract)
        // the same position reached by stepping, then the bulk adaptors on the advanced iterator
        if k <= n {
            let mut it = make();
            for _ in 0..k {
                it.next();
            }
            let c = it.count();
            ensure_sig!(c == n - k, sig, "{}: count() after {} next() calls = {} but {} items remain", what, k, c, n - k);
            let mut it = make();
            for _ in 0..k {
                it.next();
            }
            let l = keyed!(it.last());
            let exp = if k < n { items.last() } else { None };
            ensure_sig!(l.as_ref() == exp, sig, "{}: last() after {} next() calls = {:?}, expected {:?}", what, k, l, exp);
            let sk: Vec<T> = make().skip(k).map(&key).collect();
            ensure_sig!(sk[..] == items[k..], sig, "{}: skip({}) yields {:?}, expected {:?}", what, k, sk, &items[k..]);
            let tk: Vec<T> = make().take(k).map(&key).collect();
            ensure_sig!(tk[..] == items[..k], sig, "{}: take({}) yields {:?}, expected {:?}", what, k, tk, &items[..k]);
        }
    }
    for step in [2usize, 3] {
        let got: Vec<T> = make().step_by(step).map(&key).collect();
        let exp: Vec<&T> = items.iter().step_by(step).collect();
        ensure_sig!(got.iter().collect::<Vec<_>>() == exp, sig, "{}: step_by({}) yields {:?}, expected {:?}", what, step, got, exp);
    }
    let folded = make().fold(0usize, |a, _| a + 1);
    ensure_sig!(folded == n, sig, "{}: fold visits {} items, next() yields {}", what, folded, n);
    let mut seen = 0usize;
    for (i, x) in make().enumerate() {
        let x = key(x);
        ensure_sig!(items.get(i) == Some(&x), sig, "{}: a for loop yields {:?} at position {}, next() yielded {:?}", what, x, i, items.get(i));
        seen += 1;
    }
    ensure_sig!(seen == n, sig, "{}: a for loop visits {} items, next() yields {}", what, seen, n);
    Ok(true)
}

/// The same for iterators that can also be walked from the back.
pub fn check_double_ended<I, T>(what: &str, sig: &str, cap: usize, make: impl Fn() -> I) -> Result<bool, Fail>
where
    I: DoubleEndedIterator<Item = T>,
    T: PartialEq + Debug,
{
    if !check(what, sig, cap, &make)? {
        return Ok(false);
    }
    let items: Vec<T> = make().collect();
    let mut back: Vec<T> = make().rev().collect();
    back.reverse();
    ensure_sig!(back == items, sig, "{}: rev() yields (reversed) {:?}, expected {:?}", what, back, items);
    // alternate ends
    let mut it = make();
    let (mut front, mut tail) = (Vec::new(), Vec::new());
    loop {
        match it.next() {
            Some(x) => front.push(x),
            None => break,
        }
        match it.next_back() {
            Some(x) => tail.push(x),
            None => break,
        }
    }
    tail.reverse();
    front.extend(tail);
    ensure_sig!(front == items, sig, "{}: alternating next()/next_back() yields {:?}, expected {:?}", what, front, items);
    Ok(true)
}

/// For iterators over a long arithmetic run (all AS numbers of a block):
/// the item at position `k` is `item(k)` for `k < len`, `None` from `len` on;
/// checked through `nth`, `skip`, `step_by` and `last`. An implementation
/// that relies on the default adaptors walks `k` items for position `k`, so
/// positions beyond `budget` are left out (runs longer than `budget` are
/// probed at their start only; short runs, wherever they lie, completely).
pub fn check_jump<I, T>(
    what: &str,
    sig: &str,
    len: u64,
    budget: u64,
    item: impl Fn(u64) -> T,
    make: impl Fn() -> I,
) -> CheckResult
where
    I: Iterator<Item = T>,
    T: PartialEq + Debug,
{
    let mut ks: Vec<u64> = vec![0, 1, len / 2, len.saturating_sub(2), len.saturating_sub(1), len, len.saturating_add(1), len.saturating_add(9), u32::MAX as u64, u32::MAX as u64 + 1];
    ks.sort_unstable();
    ks.dedup();
    for k in ks {
        let Ok(ku) = usize::try_from(k) else { continue };
        if k > budget {
            continue;
        }
        let exp = if k < len { Some(item(k)) } else { None };
        let mut it = make();
        let got = it.nth(ku);
        ensure_sig!(got == exp, sig, "{}: nth({}) = {:?}, expected {:?} (run of {} items)", what, k, got, exp, len);
        // what follows
        if k < len {
            let next_exp = if k + 1 < len { Some(item(k + 1)) } else { None };
            let got_next = it.next();
            ensure_sig!(got_next == next_exp, sig, "{}: next() after nth({}) = {:?}, expected {:?} (run of {} items)", what, k, got_next, next_exp, len);
        }
        let got = make().skip(ku).next();
        ensure_sig!(got == exp, sig, "{}: skip({}).next() = {:?}, expected {:?} (run of {} items)", what, k, got, exp, len);
        if k >= 1 && k <= len && len - k <= 64 {
            // close to the end: walk the rest
            let rest: Vec<T> = make().skip(ku).collect();
            let exp: Vec<T> = (k..len).map(&item).collect();
            ensure_sig!(rest == exp, sig, "{}: skip({}) yields {:?}, expected {:?}", what, k, rest, exp);
            let c = make().skip(ku).count();
            ensure_sig!(c as u64 == len - k, sig, "{}: skip({}).count() = {}, expected {}", what, k, c, len - k);
        }
    }
    let hint = make().size_hint();
    ensure_sig!(
        (hint.0 as u64) <= len && hint.1.map(|h| h as u64 >= len).unwrap_or(true),
        sig, "{}: size_hint() = {:?} for a run of {} items", what, hint, len
    );
    if len > 0 && len <= budget {
        let l = make().last();
        ensure_sig!(l == Some(item(len - 1)), sig, "{}: last() = {:?}, expected {:?}", what, l, item(len - 1));
        let c = make().count() as u64;
        ensure_sig!(c == len, sig, "{}: count() = {}, expected {}", what, c, len);
    }
    if len > 2 {
        // a large stride lands on multiples of the stride only
        let stride = ((len / 3).max(1)).min((budget / 5).max(1)) as usize;
        let got: Vec<T> = make().step_by(stride).take(5).collect();
        let exp: Vec<T> = (0..5u64).map(|i| i * stride as u64).filter(|p| *p < len).map(&item).collect();
        ensure_sig!(got == exp, sig, "{}: step_by({}) yields {:?}, expected {:?} (run of {} items)", what, stride, got, exp, len);
    }
    Ok(())
}

#[cfg(test)]
mod tests {
    use super::*;

    #[test]
    fn std_iterators_obey() {
        for n in 0..12usize {
            assert!(check("vec", "t", 100, || (0..n).map(|x| x * 3)).unwrap());
            assert!(check_double_ended("vec", "t", 100, || (0..n).map(|x| x * 3)).unwrap());
        }
        check_jump("range", "t", 5, 1 << 16, |k| u32::MAX - 4 + k as u32, || (u32::MAX - 4)..=u32::MAX).unwrap();
        check_jump("range", "t", 1 << 32, 1 << 16, |k| k as u32, || 0..=u32::MAX).unwrap();
    }

    struct StaleCount(usize, usize);
    impl Iterator for StaleCount {
        type Item = usize;
        fn next(&mut self) -> Option<usize> {
            if self.0 < self.1 { self.0 += 1; Some(self.0) } else { None }
        }
        fn count(self) -> usize { self.1 }
    }

    #[test]
    fn stale_count_is_caught() {
        assert!(check("stale", "t", 100, || StaleCount(0, 5)).is_err());
    }
}
