//! rtrsim — in-memory RTR test bench shared by C06 and C08.
//!
//! # API
//!
//! **Plain payload model** (serde-able, no library types inside):
//! * [`Item`] — `V4`/`V6` route origin (address, length, resolved max-len,
//!   ASN), `Key` (SKI, ASN, key info bytes), `Aspa` (customer, providers).
//!   `Item::canonical()` clears host bits and clamps lengths so that the value
//!   is inside the library's documented input domain; `Item::to_payload()`
//!   builds the library value, `Item::from_payload()` reads one back through
//!   the public fields/accessors; `Item::min_version()` is 0/1/2.
//! * [`Data`] — a payload set: `set` (origins + router keys, set semantics) and
//!   `aspas` (customer → providers). `announce`/`withdraw`, `restricted(v)`
//!   (payload types carried by protocol version `v`), `items()`,
//!   `diff_to(new)` (minimal announce/withdraw list).
//! * [`Delta`] / [`apply_delta`] — source updates: `Add`, `Remove(pick)`,
//!   `ReplaceProviders(pick, providers)`, `Clear`, `Bulk(items)`.
//!
//! **Reference source** — [`RefSource`] implements `rtr::server::PayloadSource`
//! over a history of [`Snapshot`]s (`serial`, `data`), oldest first, last =
//! current. `RefSource::new(session, start_serial, data, retention, timing)`;
//! `update(&[Delta], Option<timing>)` appends a snapshot with serial+1
//! (wrapping); `diff(state)` answers only for the same session and a serial
//! among the last `retention` snapshots before the current one (or the current
//! one: empty diff) — otherwise `None` (Cache Reset); `arm(at, deltas)` arms a
//! *mid-response update* that is applied by the Set/Diff iterator handed to the
//! server when it reaches item `at` (or its end), i.e. between `diff()/full()`
//! and `timing()`/End of Data; `fire_armed()` applies a still-armed update.
//! `set_ready`, `set_flip` (iteration order), `current()`, `snapshot_at(serial)`,
//! `back(n)`, `session()`, `timing()`, `stats()`.
//!
//! **Recording target** — [`RecTarget`] implements `rtr::client::PayloadTarget`
//! and logs one [`ApplyRec`] `{reset, items: [(announce, Item)], timing}` per
//! `apply`; [`apply_rec`] replays a record onto a [`Data`] model.
//!
//! **Sockets** — [`mem_pair(cap_to_server, cap_to_client)`] returns
//! `(server_end, client_end, ctl)`: two [`MemEnd`]s implementing `AsyncRead +
//! AsyncWrite + Socket` over two bounded byte queues (a full queue parks the
//! writer, an empty one parks the reader, dropping an end gives EOF / broken
//! pipe) and a [`MemCtl`] handle for the harness: `feed(bytes)` (chunk delivery
//! towards the server end, ignores the capacity), `close_to_server()`,
//! `take_output()` / `pending_to_client()`, `consumed_by_server()`,
//! `server_reads()` (log of `(offset, wanted, got)` per successful server
//! read), `ops()` (count of all poll_read/poll_write calls — the deterministic
//! turn counter), `set_budget(n)` / `exhausted()` (after `n` more socket
//! operations every operation fails with an error and the flag is set),
//! `server_idle()`, `server_gone()`, `updates()` (`Socket::update` calls seen).
//! [`settle(&ctl, max_turns)`] yields to the scheduler until the server
//! connection task is parked reading an empty socket (or parked writing into a
//! full one, or gone) for two consecutive turns without any socket operation;
//! `Err` after `max_turns` (deterministic turn counter, no clock).
//! [`CapSock`] wraps the client end: it records the version of every query the
//! client writes and answers queries whose version exceeds `cap` locally with
//! an RFC 8210 "Unsupported Protocol Version" Error PDU (the version-cap proxy
//! of DESIGN C06); state is visible through the shared [`CapInfo`].
//!
//! **Runtime** — [`block_on(paused, fut)`] runs a future on a fresh
//! `current_thread` tokio runtime (time enabled, optionally paused).
//!
//! **Independent wire code** — [`parse_pdus`] splits server output into
//! [`RawPdu`]s with per-type length checks written from RFC 8210 /
//! draft-ietf-sidrops-8210bis (no use of `rtr::pdu`); accessors
//! `payload_item()`, `serial()`, `timing()`, `error()`; encoders
//! [`enc_header`], [`enc_serial_query`], [`enc_reset_query`], [`enc_error`].
//!
//! **Strategies** — `strat::item()` (small colliding universe + boundary
//! values, canonical), `strat::delta()`, `strat::timing()` (RFC 8210 ranges).
//!
//! Measured cost: a fresh runtime + server + connection + a handful of queries
//! is ~0.3 ms, so a runtime per case is affordable and no runtime is shared
//! between cases (full isolation, no leftover tasks or timers).

use crate::gen::pick_idx;
use rpki::resources::addr::{MaxLenPrefix, Prefix};
use rpki::resources::asn::Asn;
use rpki::rtr::client::{PayloadError, PayloadTarget, PayloadUpdate};
use rpki::rtr::payload::{Action, Payload, PayloadRef, Timing};
use rpki::rtr::pdu::{ProviderAsns, RouterKeyInfo};
use rpki::rtr::server::{PayloadDiff, PayloadSet, PayloadSource, Socket};
use rpki::rtr::state::{Serial, State};
use serde::{Deserialize, Serialize};
use std::collections::{BTreeMap, BTreeSet, VecDeque};
use std::future::Future;
use std::io;
use std::net::{IpAddr, Ipv4Addr, Ipv6Addr};
use std::pin::Pin;
use std::sync::{Arc, Mutex};
use std::task::{Context, Poll, Waker};
use tokio::io::{AsyncRead, AsyncWrite, ReadBuf};

pub type Tm = (u32, u32, u32);

//------------ Item -----------------------------------------------------------

#[derive(Clone, Debug, PartialEq, Eq, PartialOrd, Ord, Hash, Serialize, Deserialize)]
pub enum Item {
    V4 { addr: u32, len: u8, max: u8, asn: u32 },
    V6 { hi: u64, lo: u64, len: u8, max: u8, asn: u32 },
    Key { ski: [u8; 20], asn: u32, info: Vec<u8> },
    Aspa { customer: u32, providers: Vec<u32> },
}

impl Item {
    /// Brings the value into the documented input domain.
    pub fn canonical(self) -> Item {
        match self {
            Item::V4 { addr, len, max, asn } => {
                let len = len.min(32);
                let mask = if len == 0 { 0 } else { u32::MAX << (32 - len as u32) };
                Item::V4 { addr: addr & mask, len, max: max.clamp(len, 32), asn }
            }
            Item::V6 { hi, lo, len, max, asn } => {
                let len = len.min(128);
                let v = ((hi as u128) << 64) | lo as u128;
                let mask = if len == 0 { 0 } else { u128::MAX << (128 - len as u32) };
                let v = v & mask;
                Item::V6 { hi: (v >> 64) as u64, lo: v as u64, len, max: max.clamp(len, 128), asn }
            }
            Item::Key { ski, asn, mut info } => {
                if info.is_empty() {
                    info.push(0x30);
                }
                Item::Key { ski, asn, info }
            }
            Item::Aspa { customer, mut providers } => {
                providers.sort_unstable();
                providers.dedup();
                if providers.is_empty() {
                    providers.push(customer.wrapping_add(1));
                }
                Item::Aspa { customer, providers }
            }
        }
    }

    /// Lowest protocol version that carries this payload type.
    pub fn min_version(&self) -> u8 {
        match self {
            Item::V4 { .. } | Item::V6 { .. } => 0,
            Item::Key { .. } => 1,
            Item::Aspa { .. } => 2,
        }
    }

    pub fn to_payload(&self) -> Payload {
        match self {
            Item::V4 { addr, len, max, asn } => Payload::origin(
                MaxLenPrefix::new(Prefix::new_v4(Ipv4Addr::from(*addr), *len).expect("canonical v4"), Some(*max))
                    .expect("canonical v4 max-len"),
                Asn::from_u32(*asn),
            ),
            Item::V6 { hi, lo, len, max, asn } => Payload::origin(
                MaxLenPrefix::new(
                    Prefix::new_v6(Ipv6Addr::from(((*hi as u128) << 64) | *lo as u128), *len).expect("canonical v6"),
                    Some(*max),
                )
                .expect("canonical v6 max-len"),
                Asn::from_u32(*asn),
            ),
            Item::Key { ski, asn, info } => Payload::router_key(
                (*ski).into(),
                Asn::from_u32(*asn),
                RouterKeyInfo::new(info.clone().into()).expect("key info size"),
            ),
            Item::Aspa { customer, providers } => Payload::aspa(
                Asn::from_u32(*customer),
                ProviderAsns::try_from_iter(providers.iter().map(|p| Asn::from_u32(*p))).expect("provider count"),
            ),
        }
    }

    /// The same item with the max length left implicit where it equals the
    /// prefix length (the other way of writing an origin through the public
    /// API; routers' data is keyed by these values).
    pub fn to_payload_implicit(&self) -> Payload {
        match self {
            Item::V4 { addr, len, max, asn } if max == len => Payload::origin(
                MaxLenPrefix::new(Prefix::new_v4(Ipv4Addr::from(*addr), *len).expect("canonical v4"), None).expect("implicit max-len"),
                Asn::from_u32(*asn),
            ),
            Item::V6 { hi, lo, len, max, asn } if max == len => Payload::origin(
                MaxLenPrefix::from(Prefix::new_v6(Ipv6Addr::from(((*hi as u128) << 64) | *lo as u128), *len).expect("canonical v6")),
                Asn::from_u32(*asn),
            ),
            other => other.to_payload(),
        }
    }

    pub fn from_payload(p: &Payload) -> Item {
        match p {
            Payload::Origin(o) => {
                let len = o.prefix.prefix_len();
                let max = o.prefix.resolved_max_len();
                match o.prefix.addr() {
                    IpAddr::V4(a) => Item::V4 { addr: u32::from(a), len, max, asn: o.asn.into_u32() },
                    IpAddr::V6(a) => {
                        let v = u128::from(a);
                        Item::V6 { hi: (v >> 64) as u64, lo: v as u64, len, max, asn: o.asn.into_u32() }
                    }
                }
            }
            Payload::RouterKey(k) => {
                let mut ski = [0u8; 20];
                ski.copy_from_slice(k.key_identifier.as_slice());
                Item::Key { ski, asn: k.asn.into_u32(), info: k.key_info.as_slice().to_vec() }
            }
            Payload::Aspa(a) => Item::Aspa {
                customer: a.customer.into_u32(),
                providers: a.providers.iter().map(|x| x.into_u32()).collect(),
            },
        }
    }
}

//------------ Data -----------------------------------------------------------

#[derive(Clone, Debug, Default, PartialEq, Eq)]
pub struct Data {
    /// Route origins and router keys.
    pub set: BTreeSet<Item>,
    /// ASPA: customer -> providers.
    pub aspas: BTreeMap<u32, Vec<u32>>,
}

impl Data {
    pub fn from_items(items: &[Item]) -> Data {
        let mut d = Data::default();
        for i in items {
            d.announce(i.clone().canonical());
        }
        d
    }
    pub fn announce(&mut self, item: Item) {
        match item {
            Item::Aspa { customer, providers } => {
                self.aspas.insert(customer, providers);
            }
            other => {
                self.set.insert(other);
            }
        }
    }
    pub fn withdraw(&mut self, item: &Item) {
        match item {
            Item::Aspa { customer, .. } => {
                self.aspas.remove(customer);
            }
            other => {
                self.set.remove(other);
            }
        }
    }
    pub fn restricted(&self, version: u8) -> Data {
        Data {
            set: self.set.iter().filter(|i| i.min_version() <= version).cloned().collect(),
            aspas: if version >= 2 { self.aspas.clone() } else { BTreeMap::new() },
        }
    }
    pub fn items(&self) -> Vec<Item> {
        let mut v: Vec<Item> = self.set.iter().cloned().collect();
        v.extend(self.aspas.iter().map(|(c, p)| Item::Aspa { customer: *c, providers: p.clone() }));
        v
    }
    pub fn len(&self) -> usize {
        self.set.len() + self.aspas.len()
    }
    pub fn is_empty(&self) -> bool {
        self.len() == 0
    }
    /// Minimal list of (item, announce) turning `self` into `new`.
    pub fn diff_to(&self, new: &Data) -> Vec<(Item, bool)> {
        let mut d = Vec::new();
        for i in self.set.difference(&new.set) {
            d.push((i.clone(), false));
        }
        for (c, p) in &self.aspas {
            if !new.aspas.contains_key(c) {
                d.push((Item::Aspa { customer: *c, providers: p.clone() }, false));
            }
        }
        for i in new.set.difference(&self.set) {
            d.push((i.clone(), true));
        }
        for (c, p) in &new.aspas {
            if self.aspas.get(c) != Some(p) {
                d.push((Item::Aspa { customer: *c, providers: p.clone() }, true));
            }
        }
        d
    }
}

//------------ Delta ----------------------------------------------------------

#[derive(Clone, Debug, Serialize, Deserialize)]
pub enum Delta {
    Add(Item),
    /// Removes the `pick_idx(raw, n)`-th item of the current set.
    Remove(u16),
    /// Replaces the providers of the picked ASPA (no-op without ASPAs).
    ReplaceProviders(u16, Vec<u32>),
    Clear,
    Bulk(Vec<Item>),
}

pub fn apply_delta(data: &mut Data, d: &Delta) {
    match d {
        Delta::Add(i) => data.announce(i.clone().canonical()),
        Delta::Remove(raw) => {
            let items = data.items();
            if !items.is_empty() {
                let it = items[pick_idx(*raw, items.len())].clone();
                data.withdraw(&it);
            }
        }
        Delta::ReplaceProviders(raw, provs) => {
            let keys: Vec<u32> = data.aspas.keys().copied().collect();
            if !keys.is_empty() {
                let c = keys[pick_idx(*raw, keys.len())];
                data.announce(Item::Aspa { customer: c, providers: provs.clone() }.canonical());
            }
        }
        Delta::Clear => *data = Data::default(),
        Delta::Bulk(items) => {
            for i in items {
                data.announce(i.clone().canonical());
            }
        }
    }
}

//------------ RefSource ------------------------------------------------------

#[derive(Clone, Debug)]
pub struct Snapshot {
    pub serial: u32,
    pub data: Data,
}

#[derive(Clone, Debug, Default)]
pub struct SourceStats {
    pub full: u32,
    pub diff_some: u32,
    pub diff_none: u32,
    pub fired: u32,
    pub notify: u32,
}

pub struct SourceInner {
    pub session: u16,
    pub ready: bool,
    pub history: Vec<Snapshot>,
    pub retention: usize,
    pub timing: Tm,
    pub flip: bool,
    pub armed: Option<(usize, Vec<Delta>)>,
    pub stats: SourceStats,
}

impl SourceInner {
    fn push_update(&mut self, deltas: &[Delta]) {
        let cur = self.history.last().expect("history never empty");
        let mut data = cur.data.clone();
        for d in deltas {
            apply_delta(&mut data, d);
        }
        let serial = cur.serial.wrapping_add(1);
        self.history.push(Snapshot { serial, data });
    }
    fn state(&self) -> State {
        State::from_parts(self.session, Serial(self.history.last().unwrap().serial))
    }
}

#[derive(Clone)]
pub struct RefSource(pub Arc<Mutex<SourceInner>>);

impl RefSource {
    pub fn new(session: u16, start_serial: u32, data: Data, retention: usize, timing: Tm) -> Self {
        RefSource(Arc::new(Mutex::new(SourceInner {
            session,
            ready: true,
            history: vec![Snapshot { serial: start_serial, data }],
            retention,
            timing,
            flip: false,
            armed: None,
            stats: SourceStats::default(),
        })))
    }
    pub fn update(&self, deltas: &[Delta], timing: Option<Tm>) {
        let mut s = self.0.lock().unwrap();
        s.push_update(deltas);
        if let Some(t) = timing {
            s.timing = t;
        }
    }
    pub fn arm(&self, at: usize, deltas: Vec<Delta>) {
        self.0.lock().unwrap().armed = Some((at, deltas));
    }
    /// Applies a still-armed mid-response update now. Returns whether one was armed.
    pub fn fire_armed(&self) -> bool {
        let mut s = self.0.lock().unwrap();
        match s.armed.take() {
            Some((_, d)) => {
                s.push_update(&d);
                s.stats.fired += 1;
                true
            }
            None => false,
        }
    }
    pub fn set_ready(&self, ready: bool) {
        self.0.lock().unwrap().ready = ready;
    }
    pub fn set_flip(&self, flip: bool) {
        self.0.lock().unwrap().flip = flip;
    }
    pub fn session(&self) -> u16 {
        self.0.lock().unwrap().session
    }
    pub fn timing_now(&self) -> Tm {
        self.0.lock().unwrap().timing
    }
    pub fn current(&self) -> Snapshot {
        self.0.lock().unwrap().history.last().unwrap().clone()
    }
    pub fn snapshot_at(&self, serial: u32) -> Option<Snapshot> {
        self.0.lock().unwrap().history.iter().rev().find(|s| s.serial == serial).cloned()
    }
    /// The snapshot `n` updates before the current one.
    pub fn back(&self, n: usize) -> Option<Snapshot> {
        let s = self.0.lock().unwrap();
        let l = s.history.len();
        if n < l { Some(s.history[l - 1 - n].clone()) } else { None }
    }
    pub fn history_len(&self) -> usize {
        self.0.lock().unwrap().history.len()
    }
    pub fn stats(&self) -> SourceStats {
        self.0.lock().unwrap().stats.clone()
    }
    /// Whether `diff` would answer for this (session, serial).
    pub fn diff_available(&self, session: u16, serial: u32) -> bool {
        let s = self.0.lock().unwrap();
        s.session == session && s.history.iter().rev().take(s.retention + 1).any(|x| x.serial == serial)
    }
}

pub struct RefSet {
    items: Vec<Payload>,
    idx: usize,
    hook: Option<(usize, RefSource)>,
}

pub struct RefDiff {
    items: Vec<(Payload, Action)>,
    idx: usize,
    hook: Option<(usize, RefSource)>,
}

fn run_hook(hook: &mut Option<(usize, RefSource)>, idx: usize, len: usize) {
    if let Some((at, _)) = hook {
        if idx >= *at || idx >= len {
            let (_, src) = hook.take().unwrap();
            src.fire_armed();
        }
    }
}

impl PayloadSet for RefSet {
    fn next(&mut self) -> Option<PayloadRef<'_>> {
        run_hook(&mut self.hook, self.idx, self.items.len());
        let r = self.items.get(self.idx).map(|p| p.as_ref());
        self.idx += 1;
        r
    }
}

impl PayloadDiff for RefDiff {
    fn next(&mut self) -> Option<(PayloadRef<'_>, Action)> {
        run_hook(&mut self.hook, self.idx, self.items.len());
        let r = self.items.get(self.idx).map(|(p, a)| (p.as_ref(), *a));
        self.idx += 1;
        r
    }
}

impl PayloadSource for RefSource {
    type Set = RefSet;
    type Diff = RefDiff;

    fn ready(&self) -> bool {
        self.0.lock().unwrap().ready
    }
    fn notify(&self) -> State {
        let mut s = self.0.lock().unwrap();
        s.stats.notify += 1;
        s.state()
    }
    fn full(&self) -> (State, RefSet) {
        let mut s = self.0.lock().unwrap();
        s.stats.full += 1;
        let mut items: Vec<Payload> = s.history.last().unwrap().data.items().iter().map(|i| i.to_payload()).collect();
        if s.flip {
            items.reverse();
        }
        let hook = s.armed.as_ref().map(|(at, _)| (*at, self.clone()));
        (s.state(), RefSet { items, idx: 0, hook })
    }
    fn diff(&self, state: State) -> Option<(State, RefDiff)> {
        let mut s = self.0.lock().unwrap();
        let serial = u32::from(state.serial());
        let old = if state.session() == s.session {
            s.history.iter().rev().take(s.retention + 1).find(|x| x.serial == serial).cloned()
        } else {
            None
        };
        let Some(old) = old else {
            s.stats.diff_none += 1;
            return None;
        };
        s.stats.diff_some += 1;
        let mut items: Vec<(Payload, Action)> = old
            .data
            .diff_to(&s.history.last().unwrap().data)
            .into_iter()
            .map(|(i, ann)| (i.to_payload(), if ann { Action::Announce } else { Action::Withdraw }))
            .collect();
        if s.flip {
            // keep withdraw-before-announce per item irrelevant: items are distinct
            items.reverse();
        }
        let hook = s.armed.as_ref().map(|(at, _)| (*at, self.clone()));
        Some((s.state(), RefDiff { items, idx: 0, hook }))
    }
    fn timing(&self) -> Timing {
        let t = self.0.lock().unwrap().timing;
        Timing { refresh: t.0, retry: t.1, expire: t.2 }
    }
}

//------------ RecTarget ------------------------------------------------------

#[derive(Clone, Debug)]
pub struct ApplyRec {
    pub reset: bool,
    pub items: Vec<(bool, Item)>,
    pub timing: Tm,
    /// Items handed over that are not interchangeable with the same item
    /// built through the public constructors (==, hash, cmp disagree).
    pub problems: Vec<String>,
}

pub struct RecUpdate {
    reset: bool,
    items: Vec<(bool, Item)>,
    problems: Vec<String>,
}

fn hash_of<T: std::hash::Hash>(t: &T) -> u64 {
    use std::hash::Hasher;
    let mut h = std::collections::hash_map::DefaultHasher::new();
    t.hash(&mut h);
    h.finish()
}

impl PayloadUpdate for RecUpdate {
    fn push_update(&mut self, action: Action, payload: Payload) -> Result<(), PayloadError> {
        let item = Item::from_payload(&payload);
        // a target keeps these values in hash or ordered sets: what arrives must find
        // (withdraw) or replace (announce) the entry stored under the same item
        for (how, twin) in [("explicit max length", item.to_payload()), ("implicit max length", item.to_payload_implicit())] {
            if twin != payload || hash_of(&twin) != hash_of(&payload) || twin.cmp(&payload) != std::cmp::Ordering::Equal {
                self.problems.push(format!(
                    "{:?} handed to the target and the same item built with {} ({:?}): == {}, same hash {}, cmp {:?}",
                    payload, how, twin, twin == payload, hash_of(&twin) == hash_of(&payload), twin.cmp(&payload)
                ));
            }
        }
        self.items.push((action.is_announce(), item));
        Ok(())
    }
}

#[derive(Default)]
pub struct RecTarget {
    pub log: Vec<ApplyRec>,
    /// `reset` argument of every `start` call.
    pub starts: Vec<bool>,
}

impl PayloadTarget for RecTarget {
    type Update = RecUpdate;
    fn start(&mut self, reset: bool) -> RecUpdate {
        self.starts.push(reset);
        RecUpdate { reset, items: Vec::new(), problems: Vec::new() }
    }
    fn apply(&mut self, update: RecUpdate, timing: Timing) -> Result<(), PayloadError> {
        self.log.push(ApplyRec {
            reset: update.reset,
            items: update.items,
            timing: (timing.refresh, timing.retry, timing.expire),
            problems: update.problems,
        });
        Ok(())
    }
}

/// Replays one recorded `apply` onto the model of the client's data.
pub fn apply_rec(data: &mut Data, rec: &ApplyRec) {
    if rec.reset {
        *data = Data::default();
    }
    for (announce, item) in &rec.items {
        if *announce {
            data.announce(item.clone());
        } else {
            data.withdraw(item);
        }
    }
}

//------------ in-memory sockets ------------------------------------------------

#[derive(Default)]
struct Dir {
    q: VecDeque<u8>,
    cap: usize,
    /// The writing end is gone (or the harness closed the direction).
    eof: bool,
    /// The reading end is gone.
    reader_gone: bool,
    rwaker: Option<Waker>,
    wwaker: Option<Waker>,
    /// The last read attempt found the queue empty and parked.
    read_parked: bool,
    /// The last write attempt found the queue full and parked.
    write_parked: bool,
    consumed: u64,
    written: u64,
    reads: Vec<(u64, u32, u32)>,
}

#[derive(Default)]
struct Chan {
    /// dirs[0]: towards the server end; dirs[1]: towards the client end.
    dirs: [Dir; 2],
    ops: u64,
    budget: Option<u64>,
    exhausted: bool,
    updates: Vec<(u16, u32, bool)>,
}

impl Chan {
    fn op(&mut self) -> io::Result<()> {
        self.ops += 1;
        if let Some(b) = self.budget.as_mut() {
            if *b == 0 {
                self.exhausted = true;
                return Err(io::Error::other("rtrsim: socket operation budget exhausted"));
            }
            *b -= 1;
        }
        Ok(())
    }
}

/// One end of an in-memory connection. Side 0 is the server end.
pub struct MemEnd {
    chan: Arc<Mutex<Chan>>,
    side: usize,
}

#[derive(Clone)]
pub struct MemCtl {
    chan: Arc<Mutex<Chan>>,
}

/// Returns (server end, client end, control handle).
pub fn mem_pair(cap_to_server: usize, cap_to_client: usize) -> (MemEnd, MemEnd, MemCtl) {
    let mut c = Chan::default();
    c.dirs[0].cap = cap_to_server.max(1);
    c.dirs[1].cap = cap_to_client.max(1);
    let chan = Arc::new(Mutex::new(c));
    (MemEnd { chan: chan.clone(), side: 0 }, MemEnd { chan: chan.clone(), side: 1 }, MemCtl { chan })
}

impl AsyncRead for MemEnd {
    fn poll_read(self: Pin<&mut Self>, cx: &mut Context<'_>, buf: &mut ReadBuf<'_>) -> Poll<io::Result<()>> {
        let mut c = self.chan.lock().unwrap();
        if let Err(e) = c.op() {
            return Poll::Ready(Err(e));
        }
        let d = &mut c.dirs[self.side];
        if !d.q.is_empty() {
            let want = buf.remaining();
            let n = want.min(d.q.len());
            let off = d.consumed;
            for _ in 0..n {
                let b = d.q.pop_front().unwrap();
                buf.put_slice(&[b]);
            }
            d.consumed += n as u64;
            d.read_parked = false;
            d.reads.push((off, want as u32, n as u32));
            if let Some(w) = d.wwaker.take() {
                w.wake();
            }
            Poll::Ready(Ok(()))
        } else if d.eof {
            d.read_parked = false;
            Poll::Ready(Ok(()))
        } else {
            d.rwaker = Some(cx.waker().clone());
            d.read_parked = true;
            Poll::Pending
        }
    }
}

impl AsyncWrite for MemEnd {
    fn poll_write(self: Pin<&mut Self>, cx: &mut Context<'_>, buf: &[u8]) -> Poll<io::Result<usize>> {
        let mut c = self.chan.lock().unwrap();
        if let Err(e) = c.op() {
            return Poll::Ready(Err(e));
        }
        let d = &mut c.dirs[1 - self.side];
        if d.reader_gone {
            return Poll::Ready(Err(io::Error::new(io::ErrorKind::BrokenPipe, "rtrsim: peer gone")));
        }
        if buf.is_empty() {
            return Poll::Ready(Ok(0));
        }
        let free = d.cap.saturating_sub(d.q.len());
        if free == 0 {
            d.wwaker = Some(cx.waker().clone());
            d.write_parked = true;
            return Poll::Pending;
        }
        d.write_parked = false;
        let n = free.min(buf.len());
        d.q.extend(buf[..n].iter().copied());
        d.written += n as u64;
        if let Some(w) = d.rwaker.take() {
            w.wake();
        }
        Poll::Ready(Ok(n))
    }
    /// Vectored writes are offered (as TCP sockets do) and are as short as the
    /// free room, so code that ignores the count returned is caught.
    fn poll_write_vectored(self: Pin<&mut Self>, cx: &mut Context<'_>, bufs: &[io::IoSlice<'_>]) -> Poll<io::Result<usize>> {
        let mut c = self.chan.lock().unwrap();
        if let Err(e) = c.op() {
            return Poll::Ready(Err(e));
        }
        let d = &mut c.dirs[1 - self.side];
        if d.reader_gone {
            return Poll::Ready(Err(io::Error::new(io::ErrorKind::BrokenPipe, "rtrsim: peer gone")));
        }
        if bufs.iter().all(|b| b.is_empty()) {
            return Poll::Ready(Ok(0));
        }
        let mut free = d.cap.saturating_sub(d.q.len());
        if free == 0 {
            d.wwaker = Some(cx.waker().clone());
            d.write_parked = true;
            return Poll::Pending;
        }
        d.write_parked = false;
        let mut n = 0;
        for b in bufs {
            let k = free.min(b.len());
            d.q.extend(b[..k].iter().copied());
            n += k;
            free -= k;
            if free == 0 {
                break;
            }
        }
        d.written += n as u64;
        if let Some(w) = d.rwaker.take() {
            w.wake();
        }
        Poll::Ready(Ok(n))
    }
    fn is_write_vectored(&self) -> bool {
        true
    }
    fn poll_flush(self: Pin<&mut Self>, _: &mut Context<'_>) -> Poll<io::Result<()>> {
        Poll::Ready(Ok(()))
    }
    fn poll_shutdown(self: Pin<&mut Self>, _: &mut Context<'_>) -> Poll<io::Result<()>> {
        Poll::Ready(Ok(()))
    }
}

impl Socket for MemEnd {
    fn update(&self, state: State, reset: bool) {
        self.chan.lock().unwrap().updates.push((state.session(), u32::from(state.serial()), reset));
    }
}

impl Drop for MemEnd {
    fn drop(&mut self) {
        let mut c = self.chan.lock().unwrap();
        let out = &mut c.dirs[1 - self.side];
        out.eof = true;
        if let Some(w) = out.rwaker.take() {
            w.wake();
        }
        let inp = &mut c.dirs[self.side];
        inp.reader_gone = true;
        inp.read_parked = false;
        if let Some(w) = inp.wwaker.take() {
            w.wake();
        }
    }
}

impl MemCtl {
    /// Delivers one chunk towards the server end (capacity is not applied).
    pub fn feed(&self, data: &[u8]) {
        let mut c = self.chan.lock().unwrap();
        let d = &mut c.dirs[0];
        d.q.extend(data.iter().copied());
        d.written += data.len() as u64;
        if !data.is_empty() {
            if let Some(w) = d.rwaker.take() {
                w.wake();
            }
        }
    }
    /// Signals end of stream towards the server end.
    pub fn close_to_server(&self) {
        let mut c = self.chan.lock().unwrap();
        let d = &mut c.dirs[0];
        d.eof = true;
        if let Some(w) = d.rwaker.take() {
            w.wake();
        }
    }
    /// Drains what the server wrote so far.
    pub fn take_output(&self) -> Vec<u8> {
        let mut c = self.chan.lock().unwrap();
        let d = &mut c.dirs[1];
        let v: Vec<u8> = d.q.drain(..).collect();
        if let Some(w) = d.wwaker.take() {
            w.wake();
        }
        v
    }
    /// Copy of the bytes waiting for the client end.
    pub fn pending_to_client(&self) -> Vec<u8> {
        self.chan.lock().unwrap().dirs[1].q.iter().copied().collect()
    }
    /// Whether the server is parked on a full queue towards the client.
    pub fn server_write_parked(&self) -> bool {
        let c = self.chan.lock().unwrap();
        let w = &c.dirs[1];
        w.write_parked && w.q.len() >= w.cap
    }
    pub fn consumed_by_server(&self) -> u64 {
        self.chan.lock().unwrap().dirs[0].consumed
    }
    pub fn server_reads(&self) -> Vec<(u64, u32, u32)> {
        self.chan.lock().unwrap().dirs[0].reads.clone()
    }
    pub fn ops(&self) -> u64 {
        self.chan.lock().unwrap().ops
    }
    pub fn set_budget(&self, n: u64) {
        self.chan.lock().unwrap().budget = Some(n);
    }
    pub fn exhausted(&self) -> bool {
        self.chan.lock().unwrap().exhausted
    }
    pub fn updates(&self) -> Vec<(u16, u32, bool)> {
        self.chan.lock().unwrap().updates.clone()
    }
    /// The server end is gone.
    pub fn server_gone(&self) -> bool {
        self.chan.lock().unwrap().dirs[0].reader_gone
    }
    /// The server end is parked reading an empty queue, parked writing into
    /// a full queue, or gone.
    pub fn server_idle(&self) -> bool {
        let c = self.chan.lock().unwrap();
        let d = &c.dirs[0];
        let w = &c.dirs[1];
        d.reader_gone || (d.read_parked && d.q.is_empty()) || (w.write_parked && w.q.len() >= w.cap)
    }
}

/// Yields until the server connection task is parked on an empty socket (or
/// gone) and two consecutive scheduler turns passed without socket activity.
pub async fn settle(ctl: &MemCtl, max_turns: u32) -> Result<u32, String> {
    let mut quiet = 0;
    let mut turns = 0;
    loop {
        let before = ctl.ops();
        tokio::task::yield_now().await;
        turns += 1;
        if ctl.ops() == before && ctl.server_idle() {
            quiet += 1;
            if quiet >= 2 {
                return Ok(turns);
            }
        } else {
            quiet = 0;
        }
        if turns >= max_turns {
            return Err(format!("connection task did not settle within {} scheduler turns", max_turns));
        }
    }
}

/// Runs `fut` on a fresh current-thread runtime.
pub fn block_on<F: Future>(paused: bool, fut: F) -> F::Output {
    let rt = tokio::runtime::Builder::new_current_thread()
        .enable_time()
        .start_paused(paused)
        .build()
        .expect("tokio runtime");
    rt.block_on(fut)
}

//------------ CapSock ----------------------------------------------------------

#[derive(Clone, Debug, Default)]
pub struct CapInfo {
    /// (version, pdu type) of every complete PDU the client wrote.
    pub written: Vec<(u8, u8)>,
    /// Version of the last query passed on to the server.
    pub last_forwarded_version: Option<u8>,
    pub intercepted: u32,
}

/// Client-side wrapper: records queries and caps the protocol version.
pub struct CapSock<S> {
    inner: S,
    cap: u8,
    wbuf: Vec<u8>,
    fwd: VecDeque<u8>,
    local: VecDeque<u8>,
    pub info: Arc<Mutex<CapInfo>>,
}

impl<S> CapSock<S> {
    pub fn new(inner: S, cap: u8) -> Self {
        CapSock { inner, cap, wbuf: Vec::new(), fwd: VecDeque::new(), local: VecDeque::new(), info: Default::default() }
    }
}

impl<S: AsyncWrite + Unpin> CapSock<S> {
    fn drain(&mut self, cx: &mut Context<'_>) -> Poll<io::Result<()>> {
        while !self.fwd.is_empty() {
            let (a, _) = self.fwd.as_slices();
            let a = a.to_vec();
            match Pin::new(&mut self.inner).poll_write(cx, &a) {
                Poll::Ready(Ok(0)) => return Poll::Ready(Err(io::ErrorKind::WriteZero.into())),
                Poll::Ready(Ok(n)) => {
                    self.fwd.drain(..n);
                }
                Poll::Ready(Err(e)) => return Poll::Ready(Err(e)),
                Poll::Pending => return Poll::Pending,
            }
        }
        Poll::Ready(Ok(()))
    }
}

impl<S: AsyncRead + AsyncWrite + Unpin> AsyncRead for CapSock<S> {
    fn poll_read(mut self: Pin<&mut Self>, cx: &mut Context<'_>, buf: &mut ReadBuf<'_>) -> Poll<io::Result<()>> {
        if let Poll::Ready(Err(e)) = self.drain(cx) {
            return Poll::Ready(Err(e));
        }
        if !self.local.is_empty() {
            let n = buf.remaining().min(self.local.len());
            let v: Vec<u8> = self.local.drain(..n).collect();
            buf.put_slice(&v);
            return Poll::Ready(Ok(()));
        }
        Pin::new(&mut self.inner).poll_read(cx, buf)
    }
}

impl<S: AsyncWrite + Unpin> AsyncWrite for CapSock<S> {
    fn poll_write(mut self: Pin<&mut Self>, cx: &mut Context<'_>, buf: &[u8]) -> Poll<io::Result<usize>> {
        self.wbuf.extend_from_slice(buf);
        loop {
            if self.wbuf.len() < 8 {
                break;
            }
            let len = u32::from_be_bytes([self.wbuf[4], self.wbuf[5], self.wbuf[6], self.wbuf[7]]) as usize;
            let len = len.max(8);
            if self.wbuf.len() < len {
                break;
            }
            let pdu: Vec<u8> = self.wbuf.drain(..len).collect();
            let (version, typ) = (pdu[0], pdu[1]);
            let mut info = self.info.lock().unwrap();
            info.written.push((version, typ));
            if (typ == 1 || typ == 2) && version > self.cap {
                info.intercepted += 1;
                drop(info);
                let cap = self.cap;
                self.local.extend(enc_error(cap, 4, &pdu, b"unsupported protocol version"));
            } else {
                if typ == 1 || typ == 2 {
                    info.last_forwarded_version = Some(version);
                }
                drop(info);
                self.fwd.extend(pdu);
            }
        }
        if let Poll::Ready(Err(e)) = self.drain(cx) {
            return Poll::Ready(Err(e));
        }
        Poll::Ready(Ok(buf.len()))
    }
    fn poll_flush(mut self: Pin<&mut Self>, cx: &mut Context<'_>) -> Poll<io::Result<()>> {
        match self.drain(cx) {
            Poll::Ready(Ok(())) => Pin::new(&mut self.inner).poll_flush(cx),
            other => other,
        }
    }
    fn poll_shutdown(mut self: Pin<&mut Self>, cx: &mut Context<'_>) -> Poll<io::Result<()>> {
        Pin::new(&mut self.inner).poll_shutdown(cx)
    }
}

//------------ independent wire code ----------------------------------------------

pub fn enc_header(version: u8, typ: u8, field: u16, len: u32) -> Vec<u8> {
    let mut v = vec![version, typ];
    v.extend_from_slice(&field.to_be_bytes());
    v.extend_from_slice(&len.to_be_bytes());
    v
}

pub fn enc_serial_query(version: u8, session: u16, serial: u32) -> Vec<u8> {
    let mut v = enc_header(version, 1, session, 12);
    v.extend_from_slice(&serial.to_be_bytes());
    v
}

pub fn enc_reset_query(version: u8) -> Vec<u8> {
    enc_header(version, 2, 0, 8)
}

pub fn enc_error(version: u8, code: u16, pdu: &[u8], text: &[u8]) -> Vec<u8> {
    let mut v = enc_header(version, 10, code, (16 + pdu.len() + text.len()) as u32);
    v.extend_from_slice(&(pdu.len() as u32).to_be_bytes());
    v.extend_from_slice(pdu);
    v.extend_from_slice(&(text.len() as u32).to_be_bytes());
    v.extend_from_slice(text);
    v
}

/// One PDU as found on the wire: header fields and the bytes after the header.
#[derive(Clone, Debug, PartialEq, Eq)]
pub struct RawPdu {
    pub version: u8,
    pub typ: u8,
    /// Session id / error code / flags+zero, depending on the type.
    pub field: u16,
    pub body: Vec<u8>,
}

fn be32(b: &[u8]) -> u32 {
    u32::from_be_bytes([b[0], b[1], b[2], b[3]])
}

/// Splits a byte string a *server* wrote into PDUs; checks every length rule
/// of the PDU types a cache may send (RFC 8210 section 5, 8210bis ASPA PDU).
pub fn parse_pdus(mut b: &[u8]) -> Result<Vec<RawPdu>, String> {
    let mut out = Vec::new();
    let mut off = 0usize;
    while !b.is_empty() {
        if b.len() < 8 {
            return Err(format!("{} stray bytes at offset {} (less than a header)", b.len(), off));
        }
        let (version, typ) = (b[0], b[1]);
        let field = u16::from_be_bytes([b[2], b[3]]);
        let len = be32(&b[4..8]) as usize;
        if len < 8 || len > b.len() {
            return Err(format!("PDU type {} at offset {} announces length {} but {} bytes remain", typ, off, len, b.len()));
        }
        let body = &b[8..len];
        let ok = match typ {
            0 => len == 12,
            3 | 8 => len == 8,
            4 => len == 20,
            6 => len == 32,
            7 => len == if version == 0 { 12 } else { 24 },
            9 => len >= 32,
            11 => len >= 12 && (len - 12) % 4 == 0,
            10 => {
                len >= 16 && {
                    let pl = be32(&body[0..4]) as usize;
                    pl <= len - 16 && {
                        let tl = be32(&body[4 + pl..8 + pl]) as usize;
                        16 + pl + tl == len
                    }
                }
            }
            _ => return Err(format!("PDU type {} at offset {} is not one a cache sends", typ, off)),
        };
        if !ok {
            return Err(format!("PDU type {} version {} at offset {} has invalid length {}", typ, version, off, len));
        }
        out.push(RawPdu { version, typ, field, body: body.to_vec() });
        b = &b[len..];
        off += len;
    }
    Ok(out)
}

impl RawPdu {
    /// (announce, item) of an IPv4/IPv6 prefix, router key or ASPA PDU.
    pub fn payload_item(&self) -> Option<(bool, Item)> {
        let b = &self.body;
        match self.typ {
            4 => Some((b[0] & 1 == 1, Item::V4 { len: b[1], max: b[2], addr: be32(&b[4..8]), asn: be32(&b[8..12]) })),
            6 => {
                let hi = u64::from_be_bytes(b[4..12].try_into().unwrap());
                let lo = u64::from_be_bytes(b[12..20].try_into().unwrap());
                Some((b[0] & 1 == 1, Item::V6 { len: b[1], max: b[2], hi, lo, asn: be32(&b[20..24]) }))
            }
            9 => {
                let mut ski = [0u8; 20];
                ski.copy_from_slice(&b[0..20]);
                Some(((self.field >> 8) & 1 == 1, Item::Key { ski, asn: be32(&b[20..24]), info: b[24..].to_vec() }))
            }
            11 => {
                let providers = b[4..].chunks(4).map(be32).collect();
                Some(((self.field >> 8) & 1 == 1, Item::Aspa { customer: be32(&b[0..4]), providers }))
            }
            _ => None,
        }
    }
    /// Serial of a Serial Notify or End of Data PDU.
    pub fn serial(&self) -> Option<u32> {
        match self.typ {
            0 | 7 => Some(be32(&self.body[0..4])),
            _ => None,
        }
    }
    /// Timing of an End of Data PDU of version >= 1.
    pub fn timing(&self) -> Option<Tm> {
        if self.typ == 7 && self.body.len() == 16 {
            Some((be32(&self.body[4..8]), be32(&self.body[8..12]), be32(&self.body[12..16])))
        } else {
            None
        }
    }
    /// (code, encapsulated PDU, text) of an Error Report.
    pub fn error(&self) -> Option<(u16, Vec<u8>, Vec<u8>)> {
        if self.typ != 10 {
            return None;
        }
        let pl = be32(&self.body[0..4]) as usize;
        Some((self.field, self.body[4..4 + pl].to_vec(), self.body[8 + pl..].to_vec()))
    }
}

//------------ shared strategies --------------------------------------------------

pub mod strat {
    use super::{Delta, Item, Tm};
    use crate::gen::dense_u32;
    use proptest::prelude::*;

    fn asn() -> BoxedStrategy<u32> {
        prop_oneof![6 => prop::sample::select(vec![0u32, 1, 2, 64496, 65551, u32::MAX]), 1 => dense_u32()].boxed()
    }

    /// Items from a small universe (so that add/remove/replace collide) with a
    /// tail of boundary-dense values. Always canonical.
    pub fn item() -> BoxedStrategy<Item> {
        let v4 = (
            prop_oneof![5 => prop::sample::select(vec![0x0A00_0000u32, 0x0A01_0000, 0xC0A8_0000, 0, u32::MAX]), 1 => dense_u32()],
            prop_oneof![5 => prop::sample::select(vec![0u8, 8, 16, 24, 32]), 1 => 0u8..=32],
            prop::sample::select(vec![0u8, 0, 1, 8, 32]),
            asn(),
        )
            .prop_map(|(addr, len, extra, asn)| Item::V4 { addr, len, max: len.saturating_add(extra), asn }.canonical());
        let v6 = (
            prop::sample::select(vec![0x2001_0db8_0000_0000u64, 0x2001_0db8_ffff_0000, 0, u64::MAX, 0xfe80_0000_0000_0000]),
            prop::sample::select(vec![0u64, 1, u64::MAX]),
            prop_oneof![5 => prop::sample::select(vec![0u8, 32, 48, 64, 128]), 1 => 0u8..=128],
            prop::sample::select(vec![0u8, 0, 1, 16, 128]),
            asn(),
        )
            .prop_map(|(hi, lo, len, extra, asn)| Item::V6 { hi, lo, len, max: len.saturating_add(extra), asn }.canonical());
        let key = (
            0u8..3,
            asn(),
            prop_oneof![
                3 => Just(vec![0x30u8]),
                3 => prop::collection::vec(any::<u8>(), 1..6),
                1 => prop::collection::vec(any::<u8>(), 91..=91),
            ]
            .prop_flat_map(|v| {
                // rarely a key of 250..262, 1020..1030 or up to 5000 octets instead
                prop_oneof![
                    60 => Just(v),
                    1 => (250usize..262, any::<u8>()).prop_map(|(n, b)| (0..n).map(|i| b.wrapping_add(i as u8)).collect::<Vec<u8>>()),
                    1 => (1020usize..1030, any::<u8>()).prop_map(|(n, b)| (0..n).map(|i| b.wrapping_add(i as u8)).collect::<Vec<u8>>()),
                    1 => (1030usize..5000, any::<u8>()).prop_map(|(n, b)| (0..n).map(|i| b.wrapping_add(i as u8)).collect::<Vec<u8>>()),
                ]
            }),
        )
            .prop_map(|(k, asn, info)| Item::Key { ski: [k.wrapping_mul(0x55) ^ 0xA0; 20], asn, info }.canonical());
        // provider lists: mostly short; now and then around 64 and 256 entries (one PDU of about
        // 256 octets / 1 KiB) or a few thousand
        let providers = prop_oneof![
            40 => prop::collection::vec(asn(), 0..4),
            3 => (55u32..70, any::<u32>()).prop_map(|(n, b)| (0..n).map(|i| b.wrapping_add(i * 3)).collect::<Vec<u32>>()),
            2 => (250u32..262, any::<u32>()).prop_map(|(n, b)| (0..n).map(|i| b.wrapping_add(i * 3)).collect::<Vec<u32>>()),
            1 => (257u32..4000, any::<u32>()).prop_map(|(n, b)| (0..n).map(|i| b.wrapping_add(i * 3)).collect::<Vec<u32>>()),
        ];
        let aspa = (prop::sample::select(vec![1u32, 2, 64496, u32::MAX]), providers)
            .prop_map(|(customer, providers)| Item::Aspa { customer, providers }.canonical());
        prop_oneof![3 => v4, 2 => v6, 2 => key, 2 => aspa].boxed()
    }

    /// `n` distinct origins, a share of them IPv4 (PDUs of 20 octets) and the rest IPv6 (32
    /// octets), in a seed-dependent order: responses of tens of kilobytes whose PDU
    /// boundaries fall on every offset modulo 4.
    pub fn many_origins(n: u16, seed: u32, v4_percent: u8) -> Vec<Item> {
        let mut st = seed as u64 | 1 << 40;
        (0..n as u32)
            .map(|i| {
                st = st.wrapping_mul(6_364_136_223_846_793_005).wrapping_add(1_442_695_040_888_963_407);
                if ((st >> 33) % 100) < v4_percent as u64 {
                    Item::V4 { addr: 0x0B00_0000 + (i << 8), len: 24, max: 24, asn: 64496 + (i & 7) }
                } else {
                    Item::V6 { hi: 0x2001_0db9_0000_0000 + ((i as u64) << 16), lo: 0, len: 48, max: 48, asn: 64496 + (i & 7) }
                }
                .canonical()
            })
            .collect()
    }

    pub fn delta() -> BoxedStrategy<Delta> {
        prop_oneof![
            200 => item().prop_map(Delta::Add),
            160 => any::<u16>().prop_map(Delta::Remove),
            80 => (any::<u16>(), prop::collection::vec(asn(), 0..4)).prop_map(|(r, p)| Delta::ReplaceProviders(r, p)),
            40 => Just(Delta::Clear),
            40 => prop::collection::vec(item(), 2..12).prop_map(Delta::Bulk),
            // a big table: 64 KiB and more of payload PDUs in one response
            1 => (prop_oneof![2040u16..2060, 1500u16..4000], any::<u32>(), prop_oneof![Just(0u8), Just(100u8), 0u8..=100])
                .prop_map(|(n, seed, v4)| Delta::Bulk(many_origins(n, seed, v4))),
        ]
        .boxed()
    }

    /// Timing values inside the ranges of RFC 8210 section 6.
    pub fn timing() -> BoxedStrategy<Tm> {
        (
            prop_oneof![2 => prop::sample::select(vec![1u32, 2, 3600, 86400]), 1 => 1u32..=86400],
            prop_oneof![2 => prop::sample::select(vec![1u32, 600, 7200]), 1 => 1u32..=7200],
            prop_oneof![2 => prop::sample::select(vec![600u32, 7200, 172800]), 1 => 600u32..=172800],
        )
            .boxed()
    }
}
