//! der — independent DER toolkit (no bcder, no rpki types).
//!
//! Everything here works on plain `Vec<u8>` / `&[u8]`; the only crate-internal
//! dependency is `keys::{raw_sign, raw_verify_spki, key_id_of_spki, sha256}`
//! (aws-lc-rs directly). Used by C02/C10/C14 as the *independent encoder and
//! verifier*, and available to C01 (TBS patching) and C04 (mutation).
//!
//! # API overview
//!
//! ## 1. TLV encoding (always definite, minimal lengths)
//! * `len_octets(n)` — short form / `81 ll` / `82 hh ll` / `83 ..` / `84 ..`
//! * `tlv(tag, content)`, `cat(items)`, `seq(items)` (0x30), `set_of(items)`
//!   (0x31, items sorted per X.690 §11.6), `set_unsorted(items)`,
//!   `ctx_cons(n, content)` (`A0|n`), `ctx_prim(n, content)` (`80|n`)
//! * `null()`, `boolean(b)`, `int_u64(v)`, `int_i64(v)`, `int_unsigned(be_bytes)`
//!   (minimal two's complement of a non-negative big-endian number)
//! * `oid(content_octets)`, `oid_content(arcs)` (base-128 sub-identifiers)
//! * `octets(b)`, `bits(b, unused)`, `ia5(b)`, `printable(s)`, `utf8(s)`
//! * `Tm { year, month, day, hour, min, sec }` with `Tm::from_unix(secs)` /
//!   `to_unix()` (own proleptic-Gregorian arithmetic), `utc_time(tm)`
//!   (YYMMDDHHMMSSZ), `gen_time(tm)` (YYYYMMDDHHMMSSZ), `time_varied(tm)`
//!   (RFC 5280 rule: UTCTime for 1950..=2049), `TimeEnc { tm, generalized }`
//!
//! ## 2. Lenient TLV tree: parse, navigate, edit, re-encode
//! * `parse(buf) -> Result<(Node, consumed)>`, `parse_exact(buf)`,
//!   `parse_all(buf) -> Vec<Node>`; accepts non-minimal and indefinite
//!   lengths, high tag numbers, keeps unparsable constructed content as raw
//!   bytes, stops descending at `MAX_DEPTH`.
//! * `Node { tag: Vec<u8>, body: Body::{Prim(bytes) | Cons(children)}, start,
//!   content_start, end }` — offsets refer to the parsed buffer
//!   (`raw(src)`, `raw_content(src)`), `Node::prim / Node::cons` build new
//!   nodes, `tag0()`, `is_cons()`, `kids()`, `kids_mut()`, `prim_bytes()`,
//!   `get(path)`, `get_mut(path)`, `walk(f)`, `paths()`, `encode()` (DER
//!   definite lengths, children in stored order), `content_der()`.
//!
//! ## 3. CMS SignedData (RFC 5652 / 6488 / 6492 flavour)
//! * `attr(oid, values)`, `attr_content_type(ct)`, `attr_message_digest(d)`,
//!   `attr_signing_time(TimeEnc)`, `attr_binary_signing_time(secs)`
//! * `attrs_to_be_signed(attrs)` = `31 ‖ DER length ‖ sorted attrs` (what RFC
//!   5652 §5.4 says is signed), `attrs_implicit(attrs)` = same with tag `A0`
//! * `CmsOpts { sig_alg_sha256_with_rsa, sig_alg_null, digest_set_null,
//!   digest_si_null }` — the choices RFC 5652/7935 leave open
//! * `Cms { content_type, content, certs, crls, sid, attrs, signature, opts }`
//!   and `Cms::encode()`; `Cms::standard(..)` assembles + signs a correct
//!   object with pool key `key_idx`.
//! * BER form of the eContent (for decoders in relaxed mode; RFC 6488 asks
//!   for DER, so nobody has to accept these): `Cms::encode_segmented(lens,
//!   indefinite)` writes the eContent OCTET STRING in constructed form
//!   (`24 len { 04 .. }*` or `24 80 { 04 .. }* 00 00`), cut as
//!   `split_segments(content, lens)` says (a length of 0 = empty segment, the
//!   remainder goes into a last segment); `octets_constructed(segments,
//!   indefinite)`; `Cms::encode_with_econtent(tlv)` takes any ready-made value.
//! * `cms_parse(bytes) -> CmsView` (lenient parser based) and
//!   `CmsView::verify()` — the harness' own verifier: digest attribute ==
//!   SHA-256(eContent), content-type attribute == eContentType, signature over
//!   the re-encoded DER SET OF of the attributes under the SPKI of the first
//!   certificate (`raw_verify_spki`), sid == SKI extension == SHA-1(key).
//! * `cert_parse(der) -> CertView { tbs_raw, sig_value, serial, spki, ski,
//!   aki, basic_ca, .. }`, `CertView::signed_by(pool_idx)`,
//!   `crl_parse(der) -> CrlView`.
//!
//! ## 4. eContent writers
//! * `roa_content(as_id, v4, v6, explicit_version)` with `RoaPfx { bits, len,
//!   max_len }` (`bits` left-aligned in 128 bits), `prefix_bit_string`
//! * `aspa_content(customer, providers)`
//! * `manifest_content(number_be, this, next, entries, explicit_version)`
//!   with `MftEntry { name, hash, unused }`
//!
//! ## 5. X.509 for the CA protocols (RFC 6492 / 8181 identity certs)
//! * `name_cn(cn)`, `alg_sha256_rsa(null)`, `Ext { oid, critical, value }`,
//!   `ext_ski`, `ext_aki`, `ext_basic_constraints(ca)`, `ext_unknown`
//! * `IdCertSpec { .. }.tbs()`, `CrlSpec { .. }.tbs()`,
//!   `x509_sign(tbs, key_idx)` = `SEQ { tbs, alg, BIT STRING sig }`

use crate::keys;

//============ 1. TLV encoding =================================================

/// DER definite length octets.
pub fn len_octets(n: usize) -> Vec<u8> {
    if n < 0x80 {
        vec![n as u8]
    } else if n < 0x100 {
        vec![0x81, n as u8]
    } else if n < 0x1_0000 {
        vec![0x82, (n >> 8) as u8, n as u8]
    } else if n < 0x100_0000 {
        vec![0x83, (n >> 16) as u8, (n >> 8) as u8, n as u8]
    } else {
        vec![0x84, (n >> 24) as u8, (n >> 16) as u8, (n >> 8) as u8, n as u8]
    }
}

pub fn tlv(tag: u8, content: &[u8]) -> Vec<u8> {
    tlv_tag(&[tag], content)
}

pub fn tlv_tag(tag: &[u8], content: &[u8]) -> Vec<u8> {
    let l = len_octets(content.len());
    let mut v = Vec::with_capacity(tag.len() + l.len() + content.len());
    v.extend_from_slice(tag);
    v.extend_from_slice(&l);
    v.extend_from_slice(content);
    v
}

pub fn cat(items: &[Vec<u8>]) -> Vec<u8> {
    items.concat()
}

pub fn seq(items: &[Vec<u8>]) -> Vec<u8> {
    tlv(0x30, &cat(items))
}

/// X.690 §11.6 ordering: compare as octet strings, the shorter one padded
/// with trailing zero octets.
pub fn der_set_cmp(a: &[u8], b: &[u8]) -> std::cmp::Ordering {
    let n = a.len().max(b.len());
    for i in 0..n {
        let x = a.get(i).copied().unwrap_or(0);
        let y = b.get(i).copied().unwrap_or(0);
        if x != y {
            return x.cmp(&y);
        }
    }
    a.len().cmp(&b.len())
}

pub fn sort_set_of(items: &mut [Vec<u8>]) {
    items.sort_by(|a, b| der_set_cmp(a, b));
}

pub fn set_of(items: &[Vec<u8>]) -> Vec<u8> {
    let mut i = items.to_vec();
    sort_set_of(&mut i);
    tlv(0x31, &cat(&i))
}

pub fn set_unsorted(items: &[Vec<u8>]) -> Vec<u8> {
    tlv(0x31, &cat(items))
}

pub fn ctx_cons(n: u8, content: &[u8]) -> Vec<u8> {
    tlv(0xA0 | (n & 0x1f), content)
}

pub fn ctx_prim(n: u8, content: &[u8]) -> Vec<u8> {
    tlv(0x80 | (n & 0x1f), content)
}

pub fn null() -> Vec<u8> {
    vec![0x05, 0x00]
}

pub fn boolean(b: bool) -> Vec<u8> {
    vec![0x01, 0x01, if b { 0xFF } else { 0x00 }]
}

/// INTEGER from a non-negative big-endian number (any number of leading zero
/// octets allowed on input; the output is minimal).
pub fn int_unsigned(be: &[u8]) -> Vec<u8> {
    let mut i = 0;
    while i + 1 < be.len() && be[i] == 0 {
        i += 1;
    }
    let mut c: Vec<u8> = Vec::new();
    if be.is_empty() {
        c.push(0);
    } else {
        if be[i] & 0x80 != 0 {
            c.push(0);
        }
        c.extend_from_slice(&be[i..]);
    }
    tlv(0x02, &c)
}

pub fn int_u64(v: u64) -> Vec<u8> {
    int_unsigned(&v.to_be_bytes())
}

pub fn int_i64(v: i64) -> Vec<u8> {
    let b = v.to_be_bytes();
    let mut i = 0;
    while i + 1 < b.len()
        && ((b[i] == 0 && b[i + 1] & 0x80 == 0) || (b[i] == 0xFF && b[i + 1] & 0x80 != 0))
    {
        i += 1;
    }
    tlv(0x02, &b[i..])
}

pub fn oid(content: &[u8]) -> Vec<u8> {
    tlv(0x06, content)
}

/// Content octets of an OBJECT IDENTIFIER from its arcs (needs >= 2 arcs,
/// first in 0..=2, second < 40 unless first == 2).
pub fn oid_content(arcs: &[u64]) -> Vec<u8> {
    fn push_base128(out: &mut Vec<u8>, mut v: u64) {
        let mut tmp = vec![(v & 0x7f) as u8];
        v >>= 7;
        while v > 0 {
            tmp.push(0x80 | (v & 0x7f) as u8);
            v >>= 7;
        }
        tmp.reverse();
        out.extend_from_slice(&tmp);
    }
    let mut out = Vec::new();
    let first = arcs.first().copied().unwrap_or(0).min(2);
    let second = arcs.get(1).copied().unwrap_or(0);
    push_base128(&mut out, first * 40 + second);
    for &a in arcs.iter().skip(2) {
        push_base128(&mut out, a);
    }
    out
}

pub fn octets(b: &[u8]) -> Vec<u8> {
    tlv(0x04, b)
}

/// Cuts `content` into the segments of a BER constructed OCTET STRING: one
/// segment per entry of `lens` holding that many octets (0 = a segment
/// without data; an entry larger than what is left takes what is left), and
/// whatever remains after the last entry in one more segment. No entries: a
/// single segment with everything. The concatenation of the segments is
/// always `content`.
pub fn split_segments(content: &[u8], lens: &[u16]) -> Vec<Vec<u8>> {
    let mut out = Vec::with_capacity(lens.len() + 1);
    let mut pos = 0;
    for &l in lens {
        let n = (l as usize).min(content.len() - pos);
        out.push(content[pos..pos + n].to_vec());
        pos += n;
    }
    if pos < content.len() || out.is_empty() {
        out.push(content[pos..].to_vec());
    }
    out
}

/// OCTET STRING in BER constructed form: every segment as a primitive
/// OCTET STRING inside `24 len` (or `24 80 .. 00 00` if `indefinite`).
pub fn octets_constructed(segments: &[Vec<u8>], indefinite: bool) -> Vec<u8> {
    let inner: Vec<Vec<u8>> = segments.iter().map(|s| octets(s)).collect();
    if indefinite {
        let mut v = vec![0x24, 0x80];
        v.extend_from_slice(&cat(&inner));
        v.extend_from_slice(&[0, 0]);
        v
    } else {
        tlv(0x24, &cat(&inner))
    }
}

/// BIT STRING with `unused` (0..=7) unused bits in the last octet. The caller
/// is responsible for zeroing them (`zero_unused`) if DER is wanted.
pub fn bits(b: &[u8], unused: u8) -> Vec<u8> {
    let mut c = Vec::with_capacity(b.len() + 1);
    c.push(unused);
    c.extend_from_slice(b);
    tlv(0x03, &c)
}

pub fn zero_unused(b: &mut [u8], unused: u8) {
    if let Some(l) = b.last_mut() {
        if unused > 0 && unused < 8 {
            *l &= 0xFFu8 << unused;
        }
    }
}

pub fn ia5(b: &[u8]) -> Vec<u8> {
    tlv(0x16, b)
}

pub fn printable(s: &str) -> Vec<u8> {
    tlv(0x13, s.as_bytes())
}

pub fn utf8(s: &str) -> Vec<u8> {
    tlv(0x0C, s.as_bytes())
}

//------------ time --------------------------------------------------------------

/// Broken-down UTC time; conversion from/to Unix seconds with the harness'
/// own proleptic Gregorian arithmetic (days-from-civil).
#[derive(Clone, Copy, Debug, PartialEq, Eq, PartialOrd, Ord)]
pub struct Tm {
    pub year: i32,
    pub month: u32,
    pub day: u32,
    pub hour: u32,
    pub min: u32,
    pub sec: u32,
}

impl Tm {
    pub fn from_unix(secs: i64) -> Tm {
        let days = secs.div_euclid(86_400);
        let rem = secs.rem_euclid(86_400);
        // civil-from-days
        let z = days + 719_468;
        let era = z.div_euclid(146_097);
        let doe = z.rem_euclid(146_097);
        let yoe = (doe - doe / 1_460 + doe / 36_524 - doe / 146_096) / 365;
        let y = yoe + era * 400;
        let doy = doe - (365 * yoe + yoe / 4 - yoe / 100);
        let mp = (5 * doy + 2) / 153;
        let d = doy - (153 * mp + 2) / 5 + 1;
        let m = if mp < 10 { mp + 3 } else { mp - 9 };
        let y = if m <= 2 { y + 1 } else { y };
        Tm {
            year: y as i32,
            month: m as u32,
            day: d as u32,
            hour: (rem / 3600) as u32,
            min: (rem % 3600 / 60) as u32,
            sec: (rem % 60) as u32,
        }
    }

    pub fn to_unix(self) -> i64 {
        let y = if self.month <= 2 { self.year as i64 - 1 } else { self.year as i64 };
        let era = y.div_euclid(400);
        let yoe = y.rem_euclid(400);
        let m = self.month as i64;
        let doy = (153 * (if m > 2 { m - 3 } else { m + 9 }) + 2) / 5 + self.day as i64 - 1;
        let doe = yoe * 365 + yoe / 4 - yoe / 100 + doy;
        let days = era * 146_097 + doe - 719_468;
        days * 86_400 + self.hour as i64 * 3600 + self.min as i64 * 60 + self.sec as i64
    }
}

pub fn utc_time(t: Tm) -> Vec<u8> {
    let s = format!(
        "{:02}{:02}{:02}{:02}{:02}{:02}Z",
        t.year.rem_euclid(100),
        t.month,
        t.day,
        t.hour,
        t.min,
        t.sec
    );
    tlv(0x17, s.as_bytes())
}

pub fn gen_time(t: Tm) -> Vec<u8> {
    let s = format!("{:04}{:02}{:02}{:02}{:02}{:02}Z", t.year, t.month, t.day, t.hour, t.min, t.sec);
    tlv(0x18, s.as_bytes())
}

/// RFC 5280 §4.1.2.5: UTCTime through 2049, GeneralizedTime from 2050.
pub fn time_varied(t: Tm) -> Vec<u8> {
    if (1950..=2049).contains(&t.year) {
        utc_time(t)
    } else {
        gen_time(t)
    }
}

/// A time with an explicit choice of encoding. `generalized == false` is only
/// meaningful for 1950..=2049 (the encoder falls back to GeneralizedTime
/// outside that range, since UTCTime cannot express the year).
#[derive(Clone, Copy, Debug)]
pub struct TimeEnc {
    pub tm: Tm,
    pub generalized: bool,
}

impl TimeEnc {
    pub fn new(secs: i64, generalized: bool) -> Self {
        TimeEnc { tm: Tm::from_unix(secs), generalized }
    }
    pub fn is_generalized(self) -> bool {
        self.generalized || !(1950..=2049).contains(&self.tm.year)
    }
    pub fn encode(self) -> Vec<u8> {
        if self.is_generalized() {
            gen_time(self.tm)
        } else {
            utc_time(self.tm)
        }
    }
}

//============ 2. lenient TLV tree ==============================================

pub const MAX_DEPTH: usize = 48;

#[derive(Clone, Debug, PartialEq, Eq)]
pub enum Body {
    Prim(Vec<u8>),
    Cons(Vec<Node>),
}

#[derive(Clone, Debug, PartialEq, Eq)]
pub struct Node {
    /// Identifier octets (one octet unless the high-tag-number form is used).
    pub tag: Vec<u8>,
    pub body: Body,
    /// Offsets into the buffer this node was parsed from (0 for built nodes).
    pub start: usize,
    pub content_start: usize,
    pub end: usize,
    /// The length was given in the indefinite form.
    pub indefinite: bool,
}

#[derive(Clone, Debug, PartialEq, Eq)]
pub struct ParseError(pub String);

impl std::fmt::Display for ParseError {
    fn fmt(&self, f: &mut std::fmt::Formatter) -> std::fmt::Result {
        f.write_str(&self.0)
    }
}

fn perr<T>(s: impl Into<String>) -> Result<T, ParseError> {
    Err(ParseError(s.into()))
}

impl Node {
    pub fn prim(tag: u8, content: &[u8]) -> Node {
        Node { tag: vec![tag], body: Body::Prim(content.to_vec()), start: 0, content_start: 0, end: 0, indefinite: false }
    }
    pub fn cons(tag: u8, kids: Vec<Node>) -> Node {
        Node { tag: vec![tag], body: Body::Cons(kids), start: 0, content_start: 0, end: 0, indefinite: false }
    }
    /// First identifier octet.
    pub fn tag0(&self) -> u8 {
        self.tag.first().copied().unwrap_or(0)
    }
    pub fn is_cons(&self) -> bool {
        matches!(self.body, Body::Cons(_))
    }
    pub fn kids(&self) -> &[Node] {
        match &self.body {
            Body::Cons(k) => k,
            Body::Prim(_) => &[],
        }
    }
    pub fn kids_mut(&mut self) -> Option<&mut Vec<Node>> {
        match &mut self.body {
            Body::Cons(k) => Some(k),
            Body::Prim(_) => None,
        }
    }
    pub fn prim_bytes(&self) -> Option<&[u8]> {
        match &self.body {
            Body::Prim(b) => Some(b),
            Body::Cons(_) => None,
        }
    }
    pub fn prim_bytes_mut(&mut self) -> Option<&mut Vec<u8>> {
        match &mut self.body {
            Body::Prim(b) => Some(b),
            Body::Cons(_) => None,
        }
    }
    pub fn get(&self, path: &[usize]) -> Option<&Node> {
        let mut n = self;
        for &i in path {
            n = n.kids().get(i)?;
        }
        Some(n)
    }
    pub fn get_mut(&mut self, path: &[usize]) -> Option<&mut Node> {
        let mut n = self;
        for &i in path {
            n = n.kids_mut()?.get_mut(i)?;
        }
        Some(n)
    }
    /// First child with the given first identifier octet.
    pub fn kid_tagged(&self, tag: u8) -> Option<&Node> {
        self.kids().iter().find(|k| k.tag0() == tag)
    }
    /// The bytes of this node in the buffer it was parsed from.
    pub fn raw<'a>(&self, src: &'a [u8]) -> &'a [u8] {
        &src[self.start..self.end]
    }
    pub fn raw_content<'a>(&self, src: &'a [u8]) -> &'a [u8] {
        let end = if self.indefinite { self.end.saturating_sub(2) } else { self.end };
        &src[self.content_start..end.max(self.content_start)]
    }
    /// DER (definite, minimal length) encoding of the content.
    pub fn content_der(&self) -> Vec<u8> {
        match &self.body {
            Body::Prim(b) => b.clone(),
            Body::Cons(k) => {
                let mut v = Vec::new();
                for n in k {
                    v.extend_from_slice(&n.encode());
                }
                v
            }
        }
    }
    /// Re-encodes the tree with definite minimal lengths; children keep their
    /// stored order (use `sort_kids_der` for SET OF).
    pub fn encode(&self) -> Vec<u8> {
        tlv_tag(&self.tag, &self.content_der())
    }
    pub fn sort_kids_der(&mut self) {
        if let Body::Cons(k) = &mut self.body {
            let mut enc: Vec<(Vec<u8>, Node)> = k.drain(..).map(|n| (n.encode(), n)).collect();
            enc.sort_by(|a, b| der_set_cmp(&a.0, &b.0));
            k.extend(enc.into_iter().map(|(_, n)| n));
        }
    }
    /// Depth-first walk with the path of every node.
    pub fn walk<'a>(&'a self, f: &mut dyn FnMut(&[usize], &'a Node)) {
        fn rec<'a>(n: &'a Node, path: &mut Vec<usize>, f: &mut dyn FnMut(&[usize], &'a Node)) {
            f(path, n);
            for (i, k) in n.kids().iter().enumerate() {
                path.push(i);
                rec(k, path, f);
                path.pop();
            }
        }
        rec(self, &mut Vec::new(), f);
    }
    pub fn paths(&self) -> Vec<Vec<usize>> {
        let mut out = Vec::new();
        self.walk(&mut |p, _| out.push(p.to_vec()));
        out
    }
    pub fn count(&self) -> usize {
        let mut n = 0;
        self.walk(&mut |_, _| n += 1);
        n
    }
}

/// Parses one TLV at the start of `buf`; returns it and the bytes consumed.
pub fn parse(buf: &[u8]) -> Result<(Node, usize), ParseError> {
    let n = parse_at(buf, 0, 0)?;
    let used = n.end;
    Ok((n, used))
}

/// Parses exactly one TLV covering all of `buf`.
pub fn parse_exact(buf: &[u8]) -> Result<Node, ParseError> {
    let (n, used) = parse(buf)?;
    if used != buf.len() {
        return perr(format!("trailing data: {} of {} bytes used", used, buf.len()));
    }
    Ok(n)
}

/// Parses a concatenation of TLVs.
pub fn parse_all(buf: &[u8]) -> Result<Vec<Node>, ParseError> {
    parse_children(buf, 0, buf.len(), 0, false).map(|(k, _)| k)
}

fn parse_children(
    buf: &[u8],
    mut pos: usize,
    end: usize,
    depth: usize,
    until_eoc: bool,
) -> Result<(Vec<Node>, usize), ParseError> {
    let mut kids = Vec::new();
    loop {
        if until_eoc {
            if pos + 2 <= end && buf[pos] == 0 && buf[pos + 1] == 0 {
                return Ok((kids, pos + 2));
            }
            if pos >= end {
                return perr("missing end-of-contents");
            }
        } else if pos >= end {
            return Ok((kids, pos));
        }
        let n = parse_at(&buf[..end], pos, depth)?;
        pos = n.end;
        kids.push(n);
    }
}

fn parse_at(buf: &[u8], start: usize, depth: usize) -> Result<Node, ParseError> {
    let mut pos = start;
    let Some(&t0) = buf.get(pos) else { return perr("empty") };
    let mut tag = vec![t0];
    pos += 1;
    if t0 & 0x1f == 0x1f {
        loop {
            let Some(&b) = buf.get(pos) else { return perr("truncated tag") };
            tag.push(b);
            pos += 1;
            if b & 0x80 == 0 {
                break;
            }
            if tag.len() > 6 {
                return perr("tag too long");
            }
        }
    }
    let Some(&l0) = buf.get(pos) else { return perr("truncated length") };
    pos += 1;
    let constructed = t0 & 0x20 != 0;
    if l0 == 0x80 {
        if !constructed {
            return perr("indefinite length on primitive");
        }
        if depth >= MAX_DEPTH {
            return perr("indefinite length nested too deep");
        }
        let (kids, end) = parse_children(buf, pos, buf.len(), depth + 1, true)?;
        return Ok(Node { tag, body: Body::Cons(kids), start, content_start: pos, end, indefinite: true });
    }
    let len = if l0 < 0x80 {
        l0 as usize
    } else {
        let n = (l0 & 0x7f) as usize;
        if n > 8 {
            return perr("length of length > 8");
        }
        let mut l = 0usize;
        for _ in 0..n {
            let Some(&b) = buf.get(pos) else { return perr("truncated length") };
            l = match l.checked_mul(256) {
                Some(v) => v | b as usize,
                None => return perr("length overflow"),
            };
            pos += 1;
        }
        l
    };
    let Some(end) = pos.checked_add(len) else { return perr("length overflow") };
    if end > buf.len() {
        return perr(format!("length {} exceeds buffer at {}", len, start));
    }
    let body = if constructed && depth < MAX_DEPTH {
        match parse_children(buf, pos, end, depth + 1, false) {
            Ok((kids, _)) => Body::Cons(kids),
            Err(_) => Body::Prim(buf[pos..end].to_vec()),
        }
    } else {
        Body::Prim(buf[pos..end].to_vec())
    };
    Ok(Node { tag, body, start, content_start: pos, end, indefinite: false })
}

//============ OIDs ==============================================================

pub mod oids {
    pub const SIGNED_DATA: &[u8] = &[0x2A, 0x86, 0x48, 0x86, 0xF7, 0x0D, 0x01, 0x07, 0x02];
    pub const SHA256: &[u8] = &[0x60, 0x86, 0x48, 0x01, 0x65, 0x03, 0x04, 0x02, 0x01];
    pub const RSA_ENCRYPTION: &[u8] = &[0x2A, 0x86, 0x48, 0x86, 0xF7, 0x0D, 0x01, 0x01, 0x01];
    pub const SHA256_WITH_RSA: &[u8] = &[0x2A, 0x86, 0x48, 0x86, 0xF7, 0x0D, 0x01, 0x01, 0x0B];
    pub const CONTENT_TYPE: &[u8] = &[0x2A, 0x86, 0x48, 0x86, 0xF7, 0x0D, 0x01, 0x09, 0x03];
    pub const MESSAGE_DIGEST: &[u8] = &[0x2A, 0x86, 0x48, 0x86, 0xF7, 0x0D, 0x01, 0x09, 0x04];
    pub const SIGNING_TIME: &[u8] = &[0x2A, 0x86, 0x48, 0x86, 0xF7, 0x0D, 0x01, 0x09, 0x05];
    pub const BINARY_SIGNING_TIME: &[u8] = &[0x2A, 0x86, 0x48, 0x86, 0xF7, 0x0D, 0x01, 0x09, 0x10, 0x02, 0x2E];
    /// id-smime-ct 1.2.840.113549.1.9.16.1
    pub const CT_PREFIX: &[u8] = &[0x2A, 0x86, 0x48, 0x86, 0xF7, 0x0D, 0x01, 0x09, 0x10, 0x01];
    pub const CT_ROA: &[u8] = &[0x2A, 0x86, 0x48, 0x86, 0xF7, 0x0D, 0x01, 0x09, 0x10, 0x01, 0x18];
    pub const CT_MFT: &[u8] = &[0x2A, 0x86, 0x48, 0x86, 0xF7, 0x0D, 0x01, 0x09, 0x10, 0x01, 0x1A];
    pub const CT_PROTOCOL: &[u8] = &[0x2A, 0x86, 0x48, 0x86, 0xF7, 0x0D, 0x01, 0x09, 0x10, 0x01, 0x1C];
    pub const CT_GBR: &[u8] = &[0x2A, 0x86, 0x48, 0x86, 0xF7, 0x0D, 0x01, 0x09, 0x10, 0x01, 0x23];
    pub const CT_ASPA: &[u8] = &[0x2A, 0x86, 0x48, 0x86, 0xF7, 0x0D, 0x01, 0x09, 0x10, 0x01, 0x31];
    pub const CE_SKI: &[u8] = &[0x55, 0x1D, 0x0E];
    pub const CE_KEY_USAGE: &[u8] = &[0x55, 0x1D, 0x0F];
    pub const CE_BASIC_CONSTRAINTS: &[u8] = &[0x55, 0x1D, 0x13];
    pub const CE_CRL_NUMBER: &[u8] = &[0x55, 0x1D, 0x14];
    pub const CE_AKI: &[u8] = &[0x55, 0x1D, 0x23];
    pub const AT_COMMON_NAME: &[u8] = &[0x55, 0x04, 0x03];
}

//============ 3. CMS ============================================================

/// One Attribute: `SEQUENCE { attrType OID, attrValues SET OF ANY }`.
/// `values` are complete DER values.
pub fn attr(oid_content: &[u8], values: &[Vec<u8>]) -> Vec<u8> {
    seq(&[oid(oid_content), set_of(values)])
}

pub fn attr_content_type(ct: &[u8]) -> Vec<u8> {
    attr(oids::CONTENT_TYPE, &[oid(ct)])
}

pub fn attr_message_digest(digest: &[u8]) -> Vec<u8> {
    attr(oids::MESSAGE_DIGEST, &[octets(digest)])
}

pub fn attr_signing_time(t: TimeEnc) -> Vec<u8> {
    attr(oids::SIGNING_TIME, &[t.encode()])
}

pub fn attr_binary_signing_time(secs: u64) -> Vec<u8> {
    attr(oids::BINARY_SIGNING_TIME, &[int_u64(secs)])
}

/// The octets the signature is computed over (RFC 5652 §5.4): the DER
/// encoding of the attributes as `SET OF` with the universal SET tag.
pub fn attrs_to_be_signed(attrs: &[Vec<u8>]) -> Vec<u8> {
    set_of(attrs)
}

/// The `[0] IMPLICIT SignedAttributes` field as it appears in SignerInfo.
pub fn attrs_implicit(attrs: &[Vec<u8>]) -> Vec<u8> {
    let mut v = set_of(attrs);
    v[0] = 0xA0;
    v
}

/// Length in bytes of the content of the signed-attribute set.
pub fn attrs_content_len(attrs: &[Vec<u8>]) -> usize {
    attrs.iter().map(|a| a.len()).sum()
}

/// Encoding choices RFC 5652 / RFC 7935 leave to the sender.
#[derive(Clone, Copy, Debug, Default)]
pub struct CmsOpts {
    /// signatureAlgorithm is sha256WithRSAEncryption instead of rsaEncryption
    pub sig_alg_sha256_with_rsa: bool,
    /// NULL parameters present in signatureAlgorithm
    pub sig_alg_null: bool,
    /// NULL parameters present in SignedData.digestAlgorithms
    pub digest_set_null: bool,
    /// NULL parameters present in SignerInfo.digestAlgorithm
    pub digest_si_null: bool,
}

fn alg_id(oid_content: &[u8], with_null: bool) -> Vec<u8> {
    if with_null {
        seq(&[oid(oid_content), null()])
    } else {
        seq(&[oid(oid_content)])
    }
}

/// All parts of a SignedData object; nothing is derived, so any
/// inconsistency (wrong digest, wrong sid, ...) can be expressed.
#[derive(Clone, Debug)]
pub struct Cms {
    /// eContentType (OID content octets)
    pub content_type: Vec<u8>,
    pub content: Vec<u8>,
    /// DER certificates for the `certificates [0]` field (omitted if empty)
    pub certs: Vec<Vec<u8>>,
    /// DER CRLs for the `crls [1]` field (omitted if empty)
    pub crls: Vec<Vec<u8>>,
    /// subjectKeyIdentifier of the SignerIdentifier
    pub sid: Vec<u8>,
    /// DER attributes (any order; written sorted)
    pub attrs: Vec<Vec<u8>>,
    pub signature: Vec<u8>,
    pub opts: CmsOpts,
}

impl Cms {
    /// A correct object: the three standard attributes (+ `extra_attrs`),
    /// digest of the content, signature with pool key `key_idx` over the DER
    /// SET OF, sid = SHA-1 key identifier of that key.
    #[allow(clippy::too_many_arguments)]
    pub fn standard(
        content_type: &[u8],
        content: &[u8],
        cert: Vec<u8>,
        crls: Vec<Vec<u8>>,
        key_idx: usize,
        signing_time: TimeEnc,
        extra_attrs: &[Vec<u8>],
        opts: CmsOpts,
    ) -> Cms {
        let mut attrs = vec![
            attr_content_type(content_type),
            attr_message_digest(&keys::sha256(content)),
            attr_signing_time(signing_time),
        ];
        attrs.extend_from_slice(extra_attrs);
        let signature = keys::raw_sign(key_idx, &attrs_to_be_signed(&attrs));
        let sid = keys::key_id_of_spki(&keys::pool().spki[key_idx % keys::POOL_SIZE])
            .expect("pool key id")
            .to_vec();
        Cms {
            content_type: content_type.to_vec(),
            content: content.to_vec(),
            certs: vec![cert],
            crls,
            sid,
            attrs,
            signature,
            opts,
        }
    }

    pub fn signer_info(&self) -> Vec<u8> {
        seq(&[
            int_u64(3),
            ctx_prim(0, &self.sid),
            alg_id(oids::SHA256, self.opts.digest_si_null),
            attrs_implicit(&self.attrs),
            alg_id(
                if self.opts.sig_alg_sha256_with_rsa { oids::SHA256_WITH_RSA } else { oids::RSA_ENCRYPTION },
                self.opts.sig_alg_null,
            ),
            octets(&self.signature),
        ])
    }

    pub fn encode(&self) -> Vec<u8> {
        self.encode_with_econtent(&octets(&self.content))
    }

    /// The object with the eContent OCTET STRING in BER constructed form,
    /// `content` cut as `split_segments(content, lens)` says. Everything else
    /// is written as `encode` writes it.
    pub fn encode_segmented(&self, lens: &[u16], indefinite: bool) -> Vec<u8> {
        self.encode_with_econtent(&octets_constructed(&split_segments(&self.content, lens), indefinite))
    }

    /// The object with `econtent` (a complete TLV) inside `eContent [0]`.
    pub fn encode_with_econtent(&self, econtent: &[u8]) -> Vec<u8> {
        let mut sd = vec![
            int_u64(3),
            set_of(&[alg_id(oids::SHA256, self.opts.digest_set_null)]),
            seq(&[oid(&self.content_type), ctx_cons(0, econtent)]),
        ];
        if !self.certs.is_empty() {
            let mut c = self.certs.clone();
            sort_set_of(&mut c);
            sd.push(ctx_cons(0, &cat(&c)));
        }
        if !self.crls.is_empty() {
            let mut c = self.crls.clone();
            sort_set_of(&mut c);
            sd.push(ctx_cons(1, &cat(&c)));
        }
        sd.push(set_of(&[self.signer_info()]));
        seq(&[oid(oids::SIGNED_DATA), ctx_cons(0, &seq(&sd))])
    }
}

/// Finds `needle` in `hay` (first occurrence).
/// The CMS object `cms_der` (as `Cms::encode` or the library writes it) with
/// its *unsigned outer layers* in BER dress, the way streaming encoders emit
/// them; every signed part (signed attributes, certificates, CRLs) and the
/// content octets stay as they are, so whatever verified before still does.
/// style 1: indefinite lengths for ContentInfo, its [0], SignedData,
/// encapContentInfo and the eContent [0]; style 2: the same plus the eContent
/// OCTET STRING in constructed form (two segments, indefinite); style 3:
/// definite but non-minimal (long-form) lengths on those layers.
pub fn ber_outer_framing(cms_der: &[u8], style: u8) -> Result<Vec<u8>, String> {
    let root = parse_exact(cms_der).map_err(|e| e.0)?;
    let wrap = |tag: u8, content: &[u8]| -> Vec<u8> {
        let mut v = vec![tag];
        if style == 3 {
            v.extend_from_slice(&[0x84, (content.len() >> 24) as u8, (content.len() >> 16) as u8, (content.len() >> 8) as u8, content.len() as u8]);
            v.extend_from_slice(content);
        } else {
            v.push(0x80);
            v.extend_from_slice(content);
            v.extend_from_slice(&[0, 0]);
        }
        v
    };
    let ct = root.kids().first().ok_or("ContentInfo without content type")?;
    let sd = root.get(&[1, 0]).ok_or("ContentInfo without SignedData")?;
    let mut sd_out = Vec::new();
    for (i, k) in sd.kids().iter().enumerate() {
        if i == 2 {
            // encapContentInfo
            let ect = k.kids().first().ok_or("encapContentInfo without type")?;
            let oct = k.get(&[1, 0]).ok_or("encapContentInfo without eContent")?;
            let content = oct.prim_bytes().ok_or("eContent is not a primitive OCTET STRING")?;
            let econtent = if style == 2 {
                let cut = content.len() / 2;
                octets_constructed(&[content[..cut].to_vec(), content[cut..].to_vec()], true)
            } else {
                octets(content)
            };
            let mut enc = ect.raw(cms_der).to_vec();
            enc.extend_from_slice(&wrap(0xA0, &econtent));
            sd_out.extend_from_slice(&wrap(0x30, &enc));
        } else {
            sd_out.extend_from_slice(k.raw(cms_der));
        }
    }
    let mut ci = ct.raw(cms_der).to_vec();
    ci.extend_from_slice(&wrap(0xA0, &wrap(0x30, &sd_out)));
    Ok(wrap(0x30, &ci))
}

pub fn find_sub(hay: &[u8], needle: &[u8]) -> Option<usize> {
    if needle.is_empty() || needle.len() > hay.len() {
        return None;
    }
    hay.windows(needle.len()).position(|w| w == needle)
}

//------------ views (harness' own decoder / verifier) ---------------------------

#[derive(Clone, Debug)]
pub struct CmsView {
    pub content_type: Vec<u8>,
    pub content: Vec<u8>,
    pub certs: Vec<Vec<u8>>,
    pub crls: Vec<Vec<u8>>,
    pub sid: Vec<u8>,
    /// each attribute as found (DER bytes of the SEQUENCE), in message order
    pub attrs: Vec<Vec<u8>>,
    /// content octets of the `[0]` field exactly as found in the message
    pub attrs_raw: Vec<u8>,
    pub sig_alg: Vec<u8>,
    pub signature: Vec<u8>,
    /// byte ranges inside the message: eContent octets, signed attribute
    /// content, signature value, first certificate's TBS, first CRL's TBS
    pub span_content: (usize, usize),
    pub span_attrs: (usize, usize),
    pub span_signature: (usize, usize),
    pub span_cert_tbs: Option<(usize, usize)>,
    pub span_crl_tbs: Option<(usize, usize)>,
}

fn need<'a>(n: Option<&'a Node>, what: &str) -> Result<&'a Node, String> {
    n.ok_or_else(|| format!("CMS structure: missing {}", what))
}

/// Parses an RFC 5652 SignedData with one SignerInfo (sid = SKI form).
pub fn cms_parse(msg: &[u8]) -> Result<CmsView, String> {
    let root = parse_exact(msg).map_err(|e| e.0)?;
    if root.tag0() != 0x30 || need(root.get(&[0]), "contentType")?.prim_bytes() != Some(oids::SIGNED_DATA) {
        return Err("not a SignedData ContentInfo".into());
    }
    let sd = need(root.get(&[1, 0]), "SignedData")?;
    let k = sd.kids();
    if k.len() < 4 {
        return Err("SignedData too short".into());
    }
    let encap = &k[2];
    let content_type = need(encap.get(&[0]), "eContentType")?.prim_bytes().ok_or("eContentType")?.to_vec();
    let econtent = need(encap.get(&[1, 0]), "eContent")?;
    // a constructed (BER) OCTET STRING: concatenate the segments
    let (content, span_content) = match &econtent.body {
        Body::Prim(b) => (b.clone(), (econtent.content_start, econtent.end)),
        Body::Cons(segs) => {
            let mut v = Vec::new();
            for s in segs {
                v.extend_from_slice(s.prim_bytes().ok_or("nested constructed OCTET STRING")?);
            }
            (v, (econtent.content_start, econtent.end))
        }
    };
    let mut certs = Vec::new();
    let mut crls = Vec::new();
    let mut span_cert_tbs = None;
    let mut span_crl_tbs = None;
    let mut idx = 3;
    while idx < k.len() - 1 {
        let f = &k[idx];
        match f.tag0() {
            0xA0 => {
                for c in f.kids() {
                    if span_cert_tbs.is_none() {
                        if let Some(t) = c.get(&[0]) {
                            span_cert_tbs = Some((t.start, t.end));
                        }
                    }
                    certs.push(c.raw(msg).to_vec());
                }
            }
            0xA1 => {
                for c in f.kids() {
                    if span_crl_tbs.is_none() {
                        if let Some(t) = c.get(&[0]) {
                            span_crl_tbs = Some((t.start, t.end));
                        }
                    }
                    crls.push(c.raw(msg).to_vec());
                }
            }
            t => return Err(format!("unexpected field {:02x} in SignedData", t)),
        }
        idx += 1;
    }
    let sis = &k[k.len() - 1];
    if sis.tag0() != 0x31 || sis.kids().len() != 1 {
        return Err("expected exactly one SignerInfo".into());
    }
    let si = &sis.kids()[0];
    let s = si.kids();
    if s.len() < 6 {
        return Err("SignerInfo too short".into());
    }
    if s[1].tag0() != 0x80 {
        return Err("sid is not a subjectKeyIdentifier".into());
    }
    let sid = s[1].prim_bytes().ok_or("sid")?.to_vec();
    if s[3].tag0() != 0xA0 {
        return Err("signedAttrs missing".into());
    }
    let attrs: Vec<Vec<u8>> = s[3].kids().iter().map(|a| a.raw(msg).to_vec()).collect();
    let attrs_raw = s[3].raw_content(msg).to_vec();
    let sig_alg = need(s[4].get(&[0]), "signatureAlgorithm")?.prim_bytes().ok_or("sigalg")?.to_vec();
    let signature = s[5].prim_bytes().ok_or("signature")?.to_vec();
    Ok(CmsView {
        content_type,
        content,
        certs,
        crls,
        sid,
        attrs,
        attrs_raw,
        sig_alg,
        signature,
        span_content,
        span_attrs: (s[3].content_start, s[3].end),
        span_signature: (s[5].content_start, s[5].end),
        span_cert_tbs,
        span_crl_tbs,
    })
}

impl CmsView {
    /// Value(s) of the attribute with the given type.
    pub fn attr_values(&self, oid_content: &[u8]) -> Vec<Vec<Vec<u8>>> {
        let mut out = Vec::new();
        for a in &self.attrs {
            if let Ok(n) = parse_exact(a) {
                if n.get(&[0]).and_then(|o| o.prim_bytes()) == Some(oid_content) {
                    if let Some(set) = n.get(&[1]) {
                        out.push(set.kids().iter().map(|v| v.raw(a).to_vec()).collect());
                    }
                }
            }
        }
        out
    }

    /// The to-be-signed octets per RFC 5652 §5.4, re-encoded by the harness:
    /// universal SET tag, DER length, attributes sorted.
    pub fn to_be_signed(&self) -> Vec<u8> {
        attrs_to_be_signed(&self.attrs)
    }

    /// The parts of a parsed object as a writer value, so that an object
    /// made by somebody else (the library) can be modified in one part
    /// (attributes, signature, content ...) and written again by the
    /// independent writer. The algorithm-identifier variants are the
    /// caller's choice (`opts`); everything else is carried over.
    pub fn to_cms(&self, opts: CmsOpts) -> Cms {
        Cms {
            content_type: self.content_type.clone(),
            content: self.content.clone(),
            certs: self.certs.clone(),
            crls: self.crls.clone(),
            sid: self.sid.clone(),
            attrs: self.attrs.clone(),
            signature: self.signature.clone(),
            opts,
        }
    }

    /// Index into `attrs` of the (first) attribute of the given type.
    pub fn attr_index(&self, oid_content: &[u8]) -> Option<usize> {
        self.attrs.iter().position(|a| {
            parse_exact(a).ok().and_then(|n| n.get(&[0]).and_then(|o| o.prim_bytes().map(|b| b == oid_content))) == Some(true)
        })
    }

    /// The harness' own verification of the CMS layer (not of the chain):
    /// digest, content type, signature under the embedded certificate's key,
    /// sid == SKI extension == SHA-1 of the key. `Err(reason)` on failure.
    pub fn verify(&self) -> Result<(), String> {
        let md = self.attr_values(oids::MESSAGE_DIGEST);
        if md.len() != 1 || md[0].len() != 1 {
            return Err("message-digest attribute missing or repeated".into());
        }
        if md[0][0] != octets(&keys::sha256(&self.content)) {
            return Err("message-digest attribute != SHA-256(eContent)".into());
        }
        let ct = self.attr_values(oids::CONTENT_TYPE);
        if ct.len() != 1 || ct[0].len() != 1 || ct[0][0] != oid(&self.content_type) {
            return Err("content-type attribute != eContentType".into());
        }
        let cert = self.certs.first().ok_or("no certificate")?;
        let cv = cert_parse(cert)?;
        let kid = keys::key_id_of_spki(&cv.spki).ok_or("cannot hash SPKI")?;
        match &cv.ski {
            Some(ski) if ski.as_slice() == kid.as_slice() => {}
            _ => return Err("certificate SKI extension != SHA-1(subjectPublicKey)".into()),
        }
        if self.sid.as_slice() != kid.as_slice() {
            return Err("sid != certificate SKI".into());
        }
        if !keys::raw_verify_spki(&cv.spki, &self.to_be_signed(), &self.signature) {
            return Err("RSA signature does not verify over the DER SET OF of the signed attributes".into());
        }
        Ok(())
    }
}

#[derive(Clone, Debug)]
pub struct CertView {
    pub tbs_raw: Vec<u8>,
    pub sig_value: Vec<u8>,
    /// INTEGER content octets
    pub serial: Vec<u8>,
    pub issuer: Vec<u8>,
    pub subject: Vec<u8>,
    /// content octets of the notBefore / notAfter strings
    pub not_before: Vec<u8>,
    pub not_after: Vec<u8>,
    pub spki: Vec<u8>,
    pub ski: Option<Vec<u8>>,
    pub aki: Option<Vec<u8>>,
    pub basic_ca: Option<bool>,
    pub ext_oids: Vec<Vec<u8>>,
}

/// Parses an X.509 v3 certificate (enough for SKI/AKI/BasicConstraints).
pub fn cert_parse(der: &[u8]) -> Result<CertView, String> {
    let root = parse_exact(der).map_err(|e| e.0)?;
    let tbs = need(root.get(&[0]), "tbsCertificate")?;
    let sigv = need(root.get(&[2]), "signatureValue")?.prim_bytes().ok_or("signatureValue")?;
    if sigv.first() != Some(&0) {
        return Err("signature BIT STRING with unused bits".into());
    }
    let k = tbs.kids();
    let off = if k.first().map(|n| n.tag0()) == Some(0xA0) { 1 } else { 0 };
    if k.len() < off + 6 {
        return Err("tbsCertificate too short".into());
    }
    let mut v = CertView {
        tbs_raw: tbs.raw(der).to_vec(),
        sig_value: sigv[1..].to_vec(),
        serial: k[off].prim_bytes().ok_or("serial")?.to_vec(),
        issuer: k[off + 2].raw(der).to_vec(),
        subject: k[off + 4].raw(der).to_vec(),
        not_before: need(k[off + 3].get(&[0]), "notBefore")?.prim_bytes().ok_or("notBefore")?.to_vec(),
        not_after: need(k[off + 3].get(&[1]), "notAfter")?.prim_bytes().ok_or("notAfter")?.to_vec(),
        spki: k[off + 5].raw(der).to_vec(),
        ski: None,
        aki: None,
        basic_ca: None,
        ext_oids: Vec::new(),
    };
    if let Some(exts) = k.iter().find(|n| n.tag0() == 0xA3).and_then(|n| n.get(&[0])) {
        for e in exts.kids() {
            let id = need(e.get(&[0]), "extnID")?.prim_bytes().ok_or("extnID")?.to_vec();
            let val = e.kids().last().and_then(|n| n.prim_bytes()).ok_or("extnValue")?;
            if id == oids::CE_SKI {
                let n = parse_exact(val).map_err(|e| e.0)?;
                v.ski = n.prim_bytes().map(|b| b.to_vec());
            } else if id == oids::CE_AKI {
                let n = parse_exact(val).map_err(|e| e.0)?;
                v.aki = n.kid_tagged(0x80).and_then(|k| k.prim_bytes()).map(|b| b.to_vec());
            } else if id == oids::CE_BASIC_CONSTRAINTS {
                let n = parse_exact(val).map_err(|e| e.0)?;
                let ca = n.kid_tagged(0x01).and_then(|k| k.prim_bytes()).map(|b| b != [0]);
                v.basic_ca = Some(ca.unwrap_or(false));
            }
            v.ext_oids.push(id);
        }
    }
    Ok(v)
}

impl CertView {
    /// RSA-SHA256 over the TBS bytes under pool key `idx`.
    pub fn signed_by(&self, idx: usize) -> bool {
        keys::raw_verify(idx, &self.tbs_raw, &self.sig_value)
    }
}

#[derive(Clone, Debug)]
pub struct CrlView {
    pub tbs_raw: Vec<u8>,
    pub sig_value: Vec<u8>,
    pub this_update: Vec<u8>,
    pub next_update: Vec<u8>,
    /// INTEGER content octets of each revoked serial
    pub revoked: Vec<Vec<u8>>,
}

pub fn crl_parse(der: &[u8]) -> Result<CrlView, String> {
    let root = parse_exact(der).map_err(|e| e.0)?;
    let tbs = need(root.get(&[0]), "tbsCertList")?;
    let sigv = need(root.get(&[2]), "signatureValue")?.prim_bytes().ok_or("signatureValue")?;
    let k = tbs.kids();
    let off = if k.first().map(|n| n.tag0()) == Some(0x02) { 1 } else { 0 };
    if k.len() < off + 4 {
        return Err("tbsCertList too short".into());
    }
    let mut revoked = Vec::new();
    if let Some(list) = k.get(off + 4).filter(|n| n.tag0() == 0x30) {
        for e in list.kids() {
            revoked.push(need(e.get(&[0]), "userCertificate")?.prim_bytes().ok_or("serial")?.to_vec());
        }
    }
    Ok(CrlView {
        tbs_raw: tbs.raw(der).to_vec(),
        sig_value: sigv.get(1..).unwrap_or(&[]).to_vec(),
        this_update: k[off + 2].prim_bytes().ok_or("thisUpdate")?.to_vec(),
        next_update: k[off + 3].prim_bytes().ok_or("nextUpdate")?.to_vec(),
        revoked,
    })
}

impl CrlView {
    pub fn signed_by(&self, idx: usize) -> bool {
        keys::raw_verify(idx, &self.tbs_raw, &self.sig_value)
    }
}

//============ 4. eContent writers ==============================================

/// A ROA prefix: `bits` holds the address left-aligned in 128 bits (an IPv4
/// address occupies the top 32 bits).
#[derive(Clone, Copy, Debug)]
pub struct RoaPfx {
    pub bits: u128,
    pub len: u8,
    pub max_len: Option<u8>,
}

/// RFC 3779 IPAddress: BIT STRING holding the first `len` bits.
pub fn prefix_bit_string(bits128: u128, len: u8) -> Vec<u8> {
    let len = len.min(128) as usize;
    let nbytes = len.div_ceil(8);
    let mut b = bits128.to_be_bytes()[..nbytes].to_vec();
    let unused = (nbytes * 8 - len) as u8;
    zero_unused(&mut b, unused);
    bits(&b, unused)
}

fn roa_family(afi: u16, list: &[RoaPfx]) -> Vec<u8> {
    let addrs: Vec<Vec<u8>> = list
        .iter()
        .map(|p| {
            let mut items = vec![prefix_bit_string(p.bits, p.len)];
            if let Some(m) = p.max_len {
                items.push(int_u64(m as u64));
            }
            seq(&items)
        })
        .collect();
    seq(&[octets(&afi.to_be_bytes()), seq(&addrs)])
}

/// RFC 6482 RouteOriginAttestation. Families with an empty list are omitted.
pub fn roa_content(as_id: u32, v4: &[RoaPfx], v6: &[RoaPfx], explicit_version: bool) -> Vec<u8> {
    roa_content_ordered(as_id, v4, v6, explicit_version, false)
}

/// Same; `v6_first` writes the IPv6 family before the IPv4 one (RFC 6482 fixes no
/// order, RFC 9582 recommends IPv4 first).
pub fn roa_content_ordered(as_id: u32, v4: &[RoaPfx], v6: &[RoaPfx], explicit_version: bool, v6_first: bool) -> Vec<u8> {
    let mut items = Vec::new();
    if explicit_version {
        items.push(ctx_cons(0, &int_u64(0)));
    }
    items.push(int_u64(as_id as u64));
    let mut fams = Vec::new();
    if !v4.is_empty() {
        fams.push(roa_family(1, v4));
    }
    if !v6.is_empty() {
        fams.push(roa_family(2, v6));
    }
    if v6_first {
        fams.reverse();
    }
    items.push(seq(&fams));
    seq(&items)
}

/// ASPA profile: `SEQUENCE { [0] { 1 }, customer, SEQUENCE OF provider }`;
/// providers are written in the order given.
pub fn aspa_content(customer: u32, providers: &[u32]) -> Vec<u8> {
    let p: Vec<Vec<u8>> = providers.iter().map(|&a| int_u64(a as u64)).collect();
    seq(&[ctx_cons(0, &int_u64(1)), int_u64(customer as u64), seq(&p)])
}

#[derive(Clone, Debug)]
pub struct MftEntry {
    pub name: Vec<u8>,
    pub hash: Vec<u8>,
    pub unused: u8,
}

/// RFC 9286 Manifest eContent; hash algorithm SHA-256.
pub fn manifest_content(
    number_be: &[u8],
    this_update: TimeEnc,
    next_update: TimeEnc,
    entries: &[MftEntry],
    explicit_version: bool,
) -> Vec<u8> {
    let mut items = Vec::new();
    if explicit_version {
        items.push(ctx_cons(0, &int_u64(0)));
    }
    items.push(int_unsigned(number_be));
    items.push(this_update.encode());
    items.push(next_update.encode());
    items.push(oid(oids::SHA256));
    let list: Vec<Vec<u8>> = entries.iter().map(|e| seq(&[ia5(&e.name), bits(&e.hash, e.unused)])).collect();
    items.push(seq(&list));
    seq(&items)
}

//============ 5. X.509 (identity certificates, CRLs) ===========================

pub fn name_cn(cn: &str) -> Vec<u8> {
    seq(&[set_of(&[seq(&[oid(oids::AT_COMMON_NAME), printable(cn)])])])
}

pub fn alg_sha256_rsa(with_null: bool) -> Vec<u8> {
    alg_id(oids::SHA256_WITH_RSA, with_null)
}

#[derive(Clone, Debug)]
pub struct Ext {
    pub oid: Vec<u8>,
    pub critical: bool,
    /// DER value that goes inside the extnValue OCTET STRING
    pub value: Vec<u8>,
}

impl Ext {
    pub fn encode(&self) -> Vec<u8> {
        let mut items = vec![oid(&self.oid)];
        if self.critical {
            items.push(boolean(true));
        }
        items.push(octets(&self.value));
        seq(&items)
    }
}

pub fn ext_ski(key_id: &[u8]) -> Ext {
    Ext { oid: oids::CE_SKI.to_vec(), critical: false, value: octets(key_id) }
}

pub fn ext_aki(key_id: &[u8]) -> Ext {
    Ext { oid: oids::CE_AKI.to_vec(), critical: false, value: seq(&[ctx_prim(0, key_id)]) }
}

/// `ca == false` is written as the empty SEQUENCE (DEFAULT FALSE).
pub fn ext_basic_constraints(ca: bool) -> Ext {
    let v = if ca { seq(&[boolean(true)]) } else { seq(&[]) };
    Ext { oid: oids::CE_BASIC_CONSTRAINTS.to_vec(), critical: true, value: v }
}

pub fn ext_unknown(oid_content: &[u8], critical: bool, payload: &[u8]) -> Ext {
    Ext { oid: oid_content.to_vec(), critical, value: octets(payload) }
}

/// An RFC 5280 v3 certificate as used for RFC 6492/8181 identity EE certs.
#[derive(Clone, Debug)]
pub struct IdCertSpec {
    /// non-negative big-endian serial number
    pub serial: Vec<u8>,
    pub issuer_cn: String,
    pub subject_cn: String,
    pub not_before: Tm,
    pub not_after: Tm,
    /// DER SubjectPublicKeyInfo
    pub spki: Vec<u8>,
    pub ski: Option<Vec<u8>>,
    pub aki: Option<Vec<u8>>,
    /// None: extension absent
    pub basic_ca: Option<bool>,
    pub extra_exts: Vec<Ext>,
    /// NULL parameters in the inner and outer signature algorithm
    pub alg_null: bool,
}

impl IdCertSpec {
    pub fn tbs(&self) -> Vec<u8> {
        let mut exts = Vec::new();
        if let Some(ca) = self.basic_ca {
            exts.push(ext_basic_constraints(ca).encode());
        }
        if let Some(ski) = &self.ski {
            exts.push(ext_ski(ski).encode());
        }
        if let Some(aki) = &self.aki {
            exts.push(ext_aki(aki).encode());
        }
        for e in &self.extra_exts {
            exts.push(e.encode());
        }
        let mut items = vec![
            ctx_cons(0, &int_u64(2)),
            int_unsigned(&self.serial),
            alg_sha256_rsa(self.alg_null),
            name_cn(&self.issuer_cn),
            seq(&[time_varied(self.not_before), time_varied(self.not_after)]),
            name_cn(&self.subject_cn),
            self.spki.clone(),
        ];
        if !exts.is_empty() {
            items.push(ctx_cons(3, &seq(&exts)));
        }
        seq(&items)
    }
}

#[derive(Clone, Debug)]
pub struct CrlSpec {
    pub issuer_cn: String,
    pub this_update: Tm,
    pub next_update: Tm,
    /// (non-negative big-endian serial, revocation date)
    pub revoked: Vec<(Vec<u8>, Tm)>,
    pub aki: Option<Vec<u8>>,
    /// non-negative big-endian CRL number
    pub number: Option<Vec<u8>>,
    pub extra_exts: Vec<Ext>,
    pub alg_null: bool,
    /// crlEntryExtensions: 0 none, 1 a reasonCode on every entry, 2 on every other entry,
    /// 3 a reasonCode and an invalidityDate on every entry
    pub entry_ext: u8,
}

impl CrlSpec {
    /// TBSCertList v2. The `crlExtensions [0]` wrapper is always written
    /// (possibly holding an empty list when no extension is requested).
    pub fn tbs(&self) -> Vec<u8> {
        let mut items = vec![
            int_u64(1),
            alg_sha256_rsa(self.alg_null),
            name_cn(&self.issuer_cn),
            time_varied(self.this_update),
            time_varied(self.next_update),
        ];
        if !self.revoked.is_empty() {
            let reason = |code: u8| Ext { oid: vec![0x55, 0x1D, 0x15], critical: false, value: tlv(0x0A, &[code]) }.encode();
            let r: Vec<Vec<u8>> = self
                .revoked
                .iter()
                .enumerate()
                .map(|(i, (s, t))| {
                    let mut items = vec![int_unsigned(s), time_varied(*t)];
                    match self.entry_ext {
                        1 => items.push(seq(&[reason(1 + (i % 6) as u8)])),
                        2 if i % 2 == 0 => items.push(seq(&[reason(4)])),
                        3 => items.push(seq(&[
                            reason(1),
                            Ext { oid: vec![0x55, 0x1D, 0x18], critical: false, value: gen_time(*t) }.encode(),
                        ])),
                        _ => {}
                    }
                    seq(&items)
                })
                .collect();
            items.push(seq(&r));
        }
        let mut exts = Vec::new();
        if let Some(aki) = &self.aki {
            exts.push(ext_aki(aki).encode());
        }
        if let Some(n) = &self.number {
            exts.push(Ext { oid: oids::CE_CRL_NUMBER.to_vec(), critical: false, value: int_unsigned(n) }.encode());
        }
        for e in &self.extra_exts {
            exts.push(e.encode());
        }
        items.push(ctx_cons(0, &seq(&exts)));
        seq(&items)
    }
}

/// `SEQUENCE { tbs, sha256WithRSAEncryption, BIT STRING signature }` signed
/// with pool key `key_idx` (RSASSA-PKCS1-v1_5 / SHA-256 over `tbs`).
pub fn x509_sign(tbs: &[u8], key_idx: usize, alg_null: bool) -> Vec<u8> {
    let sig = keys::raw_sign(key_idx, tbs);
    seq(&[tbs.to_vec(), alg_sha256_rsa(alg_null), bits(&sig, 0)])
}

/// Same, with an explicitly given signature value.
pub fn x509_wrap(tbs: &[u8], sig: &[u8], alg_null: bool) -> Vec<u8> {
    seq(&[tbs.to_vec(), alg_sha256_rsa(alg_null), bits(sig, 0)])
}

//============ 6. Foreign dress for X.509 certificates ============================

/// Re-dresses a certificate the way another (conforming) implementation might
/// have written it, without changing what it says: other extension order,
/// additional non-critical extensions, optional parts the library's builder
/// never writes. The TBS is re-encoded and signed again with pool key
/// `sign_key`. Every choice is legal under RFC 5280 / 6487 / 3779 / 7318.
#[derive(Clone, Debug, Default, PartialEq, Eq, Hash, serde::Serialize, serde::Deserialize)]
pub struct Dress {
    /// 0 keeps the extension order; otherwise the seed of a permutation
    /// (1 = reversed, 2 = rotated by one).
    #[serde(default)]
    pub perm: u32,
    /// unknown non-critical extensions to insert: (position, payload length)
    #[serde(default)]
    pub unknown: Vec<(u8, u16)>,
    /// a CPS policy qualifier after the policy identifier (RFC 7318)
    #[serde(default)]
    pub cps: bool,
    /// further (https) URIs in the CRL distribution point: 1 before, 2 after, 3 both
    #[serde(default)]
    pub crldp_https: u8,
    /// SIA: bit 0 an https twin in front of every entry, bit 1 an access
    /// description with an unknown method first, bit 2 one last, bit 3 a second
    /// rsync entry for every method after the first one (first one counts)
    #[serde(default)]
    pub sia: u8,
    /// single AS numbers written as ranges min = max (which of them: bit mask)
    #[serde(default)]
    pub as_id_as_range: u32,
    /// algorithm identifiers without the NULL parameters (inner and outer)
    #[serde(default)]
    pub no_null: bool,
    /// IP resources: the address families in reverse order (IPv6 first). RFC 3779
    /// asks for ascending order; the library takes either.
    #[serde(default)]
    pub ip_family_swap: bool,
    /// Resource lists in a form RFC 3779 calls non-canonical but which denotes the same
    /// set (the library accepts and normalises them): bit 0 AS list reversed, bit 1 IP
    /// lists reversed, bit 2 an AS entry repeated, bit 3 an IP entry repeated, bit 4 an
    /// AS range cut into two overlapping or adjacent ranges, bit 5 an IP prefix cut into
    /// its two halves; bits 8.. choose the entry.
    #[serde(default)]
    pub res_noncanon: u32,
}

impl Dress {
    pub fn is_plain(&self) -> bool {
        *self == Dress::default()
    }
    /// Some part of the dress is tolerated by the library today but is not something
    /// RFC 6487 / 7935 promise (unknown extensions or access methods, algorithm
    /// identifiers without NULL): accepting such a certificate is optional.
    pub fn acceptance_optional(&self) -> bool {
        !self.unknown.is_empty() || self.no_null || self.sia & 6 != 0 || self.ip_family_swap || self.res_noncanon & 0x3f != 0
    }
    /// The dress from two raw values (monotone in the class, so shrinking moves
    /// towards the plain library encoding).
    pub fn from_raw(class: u16, r: u64) -> Dress {
        const SIZES: [u16; 10] = [0, 1, 5, 100, 117, 118, 119, 245, 246, 300];
        let unknown = |r: u64, n: usize| -> Vec<(u8, u16)> {
            (0..n).map(|i| ((r >> (8 * i)) as u8, SIZES[((r >> (32 + 4 * i)) & 15) as usize % SIZES.len()])).collect()
        };
        // weights 40, 10, 7, 5, 5, 5, 5, 13, 10 (per cent)
        let x = (class as u32 * 100) >> 16;
        let k = [40u32, 50, 57, 62, 67, 72, 77, 90, 100].iter().position(|&b| x < b).unwrap_or(8);
        match k {
            0 => Dress::default(),
            1 => Dress { perm: 1 + (r % 64) as u32, ..Dress::default() },
            2 => Dress { unknown: unknown(r, 1 + (r >> 60) as usize % 3), ..Dress::default() },
            3 => Dress { cps: true, crldp_https: (r % 4) as u8, ..Dress::default() },
            4 => Dress { sia: 1 + (r % 15) as u8, ..Dress::default() },
            5 => Dress { as_id_as_range: (r as u32) | 1, ..Dress::default() },
            6 => Dress { no_null: true, perm: (r % 3) as u32, ..Dress::default() },
            8 => Dress { ip_family_swap: r & 1 == 1, res_noncanon: ((r >> 1) as u32 & 0xffff_ff3f) | if r & 1 == 0 { 1 << ((r >> 40) % 6) } else { 0 }, ..Dress::default() },
            _ => Dress {
                perm: (r % 97) as u32,
                unknown: unknown(r >> 7, (r >> 3) as usize % 3),
                cps: r >> 5 & 1 == 1,
                crldp_https: (r >> 9) as u8 % 4,
                sia: (r >> 11) as u8 % 16,
                as_id_as_range: if r >> 15 & 1 == 1 { (r >> 16) as u32 } else { 0 },
                no_null: r >> 6 & 3 == 0,
                ip_family_swap: false,
                res_noncanon: 0,
            },
        }
    }
}

const OID_CERT_POLICIES: &[u8] = &[0x55, 0x1D, 0x20];
const OID_CRLDP: &[u8] = &[0x55, 0x1D, 0x1F];
const OID_SIA: &[u8] = &[0x2B, 0x06, 0x01, 0x05, 0x05, 0x07, 0x01, 0x0B];
const OID_IP_RES: &[u8] = &[0x2B, 0x06, 0x01, 0x05, 0x05, 0x07, 0x01, 0x07];
const OID_IP_RES_V2: &[u8] = &[0x2B, 0x06, 0x01, 0x05, 0x05, 0x07, 0x01, 0x1C];
const OID_AS_RES: &[u8] = &[0x2B, 0x06, 0x01, 0x05, 0x05, 0x07, 0x01, 0x08];
const OID_AS_RES_V2: &[u8] = &[0x2B, 0x06, 0x01, 0x05, 0x05, 0x07, 0x01, 0x1D];
const OID_QT_CPS: &[u8] = &[0x2B, 0x06, 0x01, 0x05, 0x05, 0x07, 0x02, 0x01];
const OID_AD_UNKNOWN: &[u8] = &[0x2B, 0x06, 0x01, 0x05, 0x05, 0x07, 0x30, 0x63];

fn splitmix(x: &mut u64) -> u64 {
    *x = x.wrapping_add(0x9E37_79B9_7F4A_7C15);
    let mut z = *x;
    z = (z ^ (z >> 30)).wrapping_mul(0xBF58_476D_1CE4_E5B9);
    z = (z ^ (z >> 27)).wrapping_mul(0x94D0_49BB_1331_11EB);
    z ^ (z >> 31)
}

/// Applies `f` to the DER value inside the extnValue OCTET STRING of every
/// extension with the given OID.
fn edit_ext_value(exts: &mut [Node], oid_content: &[u8], f: &mut dyn FnMut(&mut Node)) -> Result<(), String> {
    for e in exts.iter_mut() {
        let is = e.kids().first().and_then(|o| o.prim_bytes()).map(|b| b == oid_content).unwrap_or(false);
        if !is {
            continue;
        }
        let Some(kids) = e.kids_mut() else { continue };
        let Some(val) = kids.last_mut() else { continue };
        let Some(bytes) = val.prim_bytes_mut() else { return Err("extnValue is not primitive".into()) };
        let mut inner = parse_exact(bytes).map_err(|e| format!("extension value: {}", e))?;
        f(&mut inner);
        *bytes = inner.encode();
    }
    Ok(())
}

/// Value of a non-negative DER INTEGER of at most 8 significant octets.
fn uint_of(b: &[u8]) -> Option<u64> {
    if b.is_empty() || b[0] & 0x80 != 0 {
        return None;
    }
    let b = if b[0] == 0 && b.len() > 1 { &b[1..] } else { b };
    if b.len() > 8 {
        return None;
    }
    Some(b.iter().fold(0u64, |v, &x| v << 8 | x as u64))
}

/// The two halves of an RFC 3779 prefix BIT STRING (content octets incl. the
/// unused-bits octet): the prefix extended by a 0 bit and by a 1 bit.
fn halve_prefix(content: &[u8]) -> Option<(Vec<u8>, Vec<u8>)> {
    let (&unused, bytes) = content.split_first()?;
    if unused > 7 || (bytes.is_empty() && unused != 0) {
        return None;
    }
    let len = bytes.len() * 8 - unused as usize;
    if len >= 32 {
        // may be an IPv4 host route already; IPv6 prefixes this long are left alone too
        return None;
    }
    let new_len = len + 1;
    let n = new_len.div_ceil(8);
    let mut lo = bytes.to_vec();
    lo.resize(n, 0);
    let mut hi = lo.clone();
    hi[len / 8] |= 0x80 >> (len % 8);
    let un = (n * 8 - new_len) as u8;
    let mk = |v: Vec<u8>| {
        let mut out = vec![un];
        out.extend_from_slice(&v);
        out
    };
    Some((mk(lo), mk(hi)))
}

pub fn dress_cert(der: &[u8], sign_key: usize, d: &Dress) -> Result<Vec<u8>, String> {
    let mut root = parse_exact(der).map_err(|e| e.to_string())?;
    let null_outer = !d.no_null;
    let tbs = root.kids_mut().and_then(|k| k.first_mut()).ok_or("no TBS")?;
    {
        let kids = tbs.kids_mut().ok_or("TBS not constructed")?;
        if d.no_null {
            // version [0], serial, signature algorithm
            let alg = kids.get_mut(2).ok_or("no signature algorithm")?;
            if alg.tag0() != 0x30 {
                return Err("unexpected TBS layout".into());
            }
            if let Some(k) = alg.kids_mut() {
                k.truncate(1);
            }
        }
        let ext_wrap = kids.iter_mut().find(|k| k.tag0() == 0xA3).ok_or("no extensions")?;
        let ext_seq = ext_wrap.kids_mut().and_then(|k| k.first_mut()).ok_or("no extension list")?;
        let exts = ext_seq.kids_mut().ok_or("extension list not constructed")?;
        if d.cps {
            edit_ext_value(exts, OID_CERT_POLICIES, &mut |v| {
                if let Some(info) = v.kids_mut().and_then(|k| k.first_mut()) {
                    if let Some(k) = info.kids_mut() {
                        if k.len() == 1 {
                            let q = seq(&[seq(&[oid(OID_QT_CPS), ia5(b"https://cps.example.net/rpki-cps.html")])]);
                            if let Ok(n) = parse_exact(&q) {
                                k.push(n);
                            }
                        }
                    }
                }
            })?;
        }
        if d.crldp_https != 0 {
            let mode = d.crldp_https;
            edit_ext_value(exts, OID_CRLDP, &mut |v| {
                // SEQ { SEQ { [0] { [0] { [6] uri .. } } } }
                let names = v
                    .kids_mut()
                    .and_then(|k| k.first_mut())
                    .and_then(|dp| dp.kids_mut())
                    .and_then(|k| k.first_mut())
                    .and_then(|dpn| dpn.kids_mut())
                    .and_then(|k| k.first_mut())
                    .and_then(|full| full.kids_mut());
                if let Some(names) = names {
                    if mode & 1 != 0 {
                        names.insert(0, Node::prim(0x86, b"https://crl.example.net/first.crl"));
                    }
                    if mode & 2 != 0 {
                        names.push(Node::prim(0x86, b"https://crl.example.net/last.crl"));
                    }
                }
            })?;
        }
        if d.sia != 0 {
            let mode = d.sia;
            edit_ext_value(exts, OID_SIA, &mut |v| {
                let Some(list) = v.kids_mut() else { return };
                let orig: Vec<Node> = list.drain(..).collect();
                let mut out = Vec::new();
                if mode & 2 != 0 {
                    out.push(Node::cons(0x30, vec![Node::prim(0x06, OID_AD_UNKNOWN), Node::prim(0x86, b"rsync://other.example.net/unknown/method/")]));
                }
                for ad in orig {
                    let method = ad.kids().first().cloned();
                    if mode & 1 != 0 {
                        if let Some(m) = &method {
                            out.push(Node::cons(0x30, vec![m.clone(), Node::prim(0x86, b"https://rrdp.example.net/twin/location")]));
                        }
                    }
                    out.push(ad);
                    if mode & 8 != 0 {
                        if let Some(m) = &method {
                            out.push(Node::cons(0x30, vec![m.clone(), Node::prim(0x86, b"rsync://second.example.net/other/place/x.mft")]));
                        }
                    }
                }
                if mode & 4 != 0 {
                    out.push(Node::cons(0x30, vec![Node::prim(0x06, OID_AD_UNKNOWN), Node::prim(0x82, b"dns.example.net")]));
                }
                *list = out;
            })?;
        }
        if d.as_id_as_range != 0 {
            let mask = d.as_id_as_range;
            for o in [OID_AS_RES, OID_AS_RES_V2] {
                edit_ext_value(exts, o, &mut |v| {
                    // SEQ { [0] { NULL | SEQ OF (INTEGER | SEQ { INTEGER, INTEGER }) } }
                    let list = v
                        .kids_mut()
                        .and_then(|k| k.iter_mut().find(|n| n.tag0() == 0xA0))
                        .and_then(|a| a.kids_mut())
                        .and_then(|k| k.first_mut())
                        .and_then(|l| l.kids_mut());
                    if let Some(list) = list {
                        for (i, item) in list.iter_mut().enumerate() {
                            if item.tag0() == 0x02 && mask >> (i % 32) & 1 == 1 {
                                let twin = item.clone();
                                *item = Node::cons(0x30, vec![twin.clone(), twin]);
                            }
                        }
                    }
                })?;
            }
        }
        if d.ip_family_swap || d.res_noncanon & 0x2a != 0 {
            let (swap, nc) = (d.ip_family_swap, d.res_noncanon);
            for o in [OID_IP_RES, OID_IP_RES_V2] {
                edit_ext_value(exts, o, &mut |v| {
                    let Some(fams) = v.kids_mut() else { return };
                    for fam in fams.iter_mut() {
                        // IPAddressFamily { OCTET STRING, NULL | SEQUENCE OF entry }
                        let Some(list) = fam.kids_mut().and_then(|k| k.get_mut(1)).and_then(|l| l.kids_mut()) else { continue };
                        if list.is_empty() {
                            continue;
                        }
                        let at = (nc >> 8) as usize % list.len();
                        if nc & 0x20 != 0 {
                            // the first prefix at or after `at` that can be halved
                            if let Some(i) = (0..list.len()).map(|k| (at + k) % list.len()).find(|&i| list[i].tag0() == 0x03) {
                                if let Some((a, b)) = list[i].prim_bytes().and_then(halve_prefix) {
                                    list[i] = Node::prim(0x03, &a);
                                    list.insert(i + 1, Node::prim(0x03, &b));
                                }
                            }
                        }
                        if nc & 0x08 != 0 {
                            let twin = list[at % list.len()].clone();
                            list.insert(at % list.len(), twin);
                        }
                        if nc & 0x02 != 0 {
                            list.reverse();
                        }
                    }
                    if swap {
                        fams.reverse();
                    }
                })?;
            }
        }
        if d.res_noncanon & 0x15 != 0 {
            let nc = d.res_noncanon;
            for o in [OID_AS_RES, OID_AS_RES_V2] {
                edit_ext_value(exts, o, &mut |v| {
                    let list = v
                        .kids_mut()
                        .and_then(|k| k.iter_mut().find(|n| n.tag0() == 0xA0))
                        .and_then(|a| a.kids_mut())
                        .and_then(|k| k.first_mut())
                        .and_then(|l| l.kids_mut());
                    let Some(list) = list else { return };
                    if list.is_empty() {
                        return;
                    }
                    let at = (nc >> 8) as usize % list.len();
                    if nc & 0x10 != 0 {
                        let found = (0..list.len()).map(|k| (at + k) % list.len()).find_map(|i| {
                            let k = list[i].kids();
                            if list[i].tag0() != 0x30 || k.len() != 2 {
                                return None;
                            }
                            let (a, b) = (uint_of(k[0].prim_bytes()?)?, uint_of(k[1].prim_bytes()?)?);
                            (a < b).then_some((i, a, b))
                        });
                        if let Some((i, a, b)) = found {
                            // [a, m] and [m' , b] with m' in {m + 1 (adjacent), m (overlap), a (covering)}
                            let m = a + (nc as u64 >> 16) % (b - a);
                            let m2 = match nc >> 14 & 3 {
                                0 => m + 1,
                                1 => m,
                                _ => a,
                            };
                            let rng = |x: u64, y: u64| parse_exact(&seq(&[int_u64(x), int_u64(y)])).ok();
                            if let (Some(r1), Some(r2)) = (rng(a, m), rng(m2, b)) {
                                list[i] = r1;
                                list.insert(i + 1, r2);
                            }
                        }
                    }
                    if nc & 0x04 != 0 {
                        let twin = list[at % list.len()].clone();
                        list.insert(at % list.len(), twin);
                    }
                    if nc & 0x01 != 0 {
                        list.reverse();
                    }
                })?;
            }
        }
        for &(pos, len) in &d.unknown {
            let at = (pos as usize * (exts.len() + 1)) >> 8;
            let mut o = vec![0x2B, 0x06, 0x01, 0x04, 0x01, 0x83, 0xE3, 0x5D];
            o.push(0x01 + (len % 100) as u8);
            let payload: Vec<u8> = (0..len as usize).map(|i| (i * 7 + pos as usize) as u8).collect();
            let e = parse_exact(&ext_unknown(&o, false, &payload).encode()).map_err(|e| e.to_string())?;
            exts.insert(at, e);
        }
        match d.perm {
            0 => {}
            1 => exts.reverse(),
            2 => exts.rotate_left(1),
            p => {
                let mut st = p as u64;
                for i in (1..exts.len()).rev() {
                    let j = (splitmix(&mut st) % (i as u64 + 1)) as usize;
                    exts.swap(i, j);
                }
            }
        }
    }
    let tbs_der = tbs.encode();
    Ok(x509_sign(&tbs_der, sign_key, null_outer))
}

//============ self test ==========================================================

/// Sanity checks of the toolkit itself (called from the C02 module once).
pub fn selfcheck() -> Result<(), String> {
    if len_octets(127) != [0x7f] || len_octets(128) != [0x81, 0x80] || len_octets(255) != [0x81, 0xff]
        || len_octets(256) != [0x82, 1, 0] || len_octets(65535) != [0x82, 0xff, 0xff]
        || len_octets(65536) != [0x83, 1, 0, 0]
    {
        return Err("len_octets".into());
    }
    if int_u64(0) != [2, 1, 0] || int_u64(127) != [2, 1, 127] || int_u64(128) != [2, 2, 0, 128]
        || int_u64(256) != [2, 2, 1, 0] || int_i64(-1) != [2, 1, 0xff] || int_i64(-129) != [2, 2, 0xff, 0x7f]
    {
        return Err("integer".into());
    }
    if oid_content(&[1, 2, 840, 113549, 1, 7, 2]) != oids::SIGNED_DATA {
        return Err("oid_content".into());
    }
    for &(secs, y, mo, d) in
        &[(0i64, 1970, 1u32, 1u32), (951_782_400, 2000, 2, 29), (4_102_444_800, 2100, 1, 1), (-86_400, 1969, 12, 31)]
    {
        let t = Tm::from_unix(secs);
        if (t.year, t.month, t.day) != (y, mo, d) || t.to_unix() != secs {
            return Err(format!("calendar {}", secs));
        }
    }
    let s = set_of(&[vec![0x30, 1, 5], vec![0x30, 1, 4], vec![0x04, 0]]);
    if s != [0x31, 8, 0x04, 0, 0x30, 1, 4, 0x30, 1, 5] {
        return Err("set_of".into());
    }
    let n = parse_exact(&s).map_err(|e| e.0)?;
    if n.kids().len() != 3 || n.encode() != s {
        return Err("parse/encode".into());
    }
    // non-minimal and indefinite lengths are read and normalised
    let odd = [0x30, 0x80, 0x04, 0x81, 0x01, 0xAA, 0x00, 0x00];
    let n = parse_exact(&odd).map_err(|e| e.0)?;
    if n.encode() != [0x30, 3, 0x04, 1, 0xAA] {
        return Err("lenient parse".into());
    }
    // BER segmentation of an OCTET STRING
    let segs = split_segments(b"abcdef", &[2, 0, 9, 0]);
    if segs != [b"ab".to_vec(), vec![], b"cdef".to_vec(), vec![]]
        || split_segments(b"abc", &[]) != [b"abc".to_vec()]
        || split_segments(b"abc", &[1]) != [b"a".to_vec(), b"bc".to_vec()]
        || split_segments(b"", &[]) != [Vec::<u8>::new()]
    {
        return Err("split_segments".into());
    }
    if octets_constructed(&segs, false) != [0x24, 14, 4, 2, b'a', b'b', 4, 0, 4, 4, b'c', b'd', b'e', b'f', 4, 0]
        || octets_constructed(&segs[..2], true) != [0x24, 0x80, 4, 2, b'a', b'b', 4, 0, 0, 0]
    {
        return Err("octets_constructed".into());
    }
    Ok(())
}
