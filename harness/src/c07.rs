//! C07 — RTR PDUs survive the wire; broken streams end in errors, not hangs.
//!
//! Sub-checks: `roundtrip` (constructors → write → every reader → accessors),
//! `payload` (payload item → PDU → wire → PDU → payload item), `truncate`
//! (every proper prefix of every PDU of a sequence through every reader),
//! `corrupt` / `header-enum` (type / version / length field of one header
//! rewritten; random resp. exhaustive over the byte values), `client` (the
//! real `rtr::Client` fed a server reply stream: intact, every truncation,
//! one corrupted header).

#[path = "c07_io.rs"]
mod io_;

use crate::engine::*;
use crate::gen::{dense_u128, dense_u32, pick_idx, U128};
use io_::{drive, MemReader, MemSock, MemWriter, EOF_POLL_LIMIT};
use proptest::prelude::*;
use rpki::crypto::keys::KeyIdentifier;
use rpki::resources::addr::{MaxLenPrefix, Prefix};
use rpki::resources::asn::Asn;
use rpki::rtr::client::{Client, PayloadError, PayloadTarget};
use rpki::rtr::payload as pl;
use rpki::rtr::pdu;
use rpki::rtr::state::{Serial, State};
use serde::{Deserialize, Serialize};
use std::future::Future;
use std::io;
use std::net::{Ipv4Addr, Ipv6Addr};

pub const RULE: &str = "roundtrip: random sequences of 1..6 PDUs over all 11 PDU types (versions 0-2 and 3-255, any \
session/serial/timing/flags, v4/v6 prefixes with any (len,max_len,host bits), key info 0..4 KiB, 0..300 providers (and, outside the truncation sweep, 16370..16380 = up to the maximum a PDU can carry), error \
PDUs with embedded PDU/text 0..2 KiB), each PDU built by the library constructor, accessors compared with the inputs, \
written, length field (big-endian at octet 4) compared with bytes written, read back through every reader entry point \
(read, try_read, Header::read + read_payload/skip_payload dispatch, Payload::read, SerialQueryPayload::read) from a \
never-pending in-memory reader with generated chunk sizes; payload PDUs also through to_payload against a harness \
computed value. payload: payload items (valid origins, router keys, ASPA) x action x version -> Payload::new -> write -> \
Payload::read -> to_payload. truncate: for each PDU of a sequence every proper prefix (0..len-1 bytes, exhaustive per \
case) through every reader: must be Err (try_read on an error PDU: Ok(Err(header)) once the header is complete), one \
poll, <=2 polls of the exhausted reader, no panic. corrupt: one header field (type / version / length: abs, +k, -k, 0, \
7, 2^32-1 ...) of one PDU of a sequence rewritten, stream continues with the following PDUs; outcome class from a \
reference model of the reader's type and length rules; Err => bytes served <= max(8, announced length), Ok => bytes \
served == announced length. header-enum: the same oracle, complete enumeration of all 256 type bytes, all 256 version \
bytes and a fixed list of lengths for one canonical PDU of each kind. client: rtr::Client::update() over a reply stream \
[version-error PDU] [cache reset] cache response, payload PDUs, end of data: intact => exactly the (action, payload) list \
and state; every proper prefix => Err; one corrupted header => Err where the reference rules say so, otherwise only \
termination. non-trivial = sequence with a variable-length PDU (roundtrip/payload), a truncation point strictly inside a \
PDU body (truncate/client), or a header field actually changed (corrupt/header-enum/client). Items after the wire must be interchangeable with the expected item: ==, same hash, cmp Equal (origins written with an implicit max length included). foreign: ASPA PDUs written octet by octet with 0..200000 providers (dense at 16380/16381, 65535/65536, 131072), a reserved octet, then an IPv4 prefix PDU, through Aspa::read, Header::read + read_payload, Payload::read and inside a cache reply through Client::update: refused within the byte bound (only beyond the constructors' limit), or returned after exactly the announced length with exactly the providers on the wire, identical when written again, next PDU intact; non-trivial = more providers than the constructor admits. to_payload of a prefix PDU with host bits set may normalise or refuse.";

//------------ plain-data specs ------------------------------------------------

/// `len` bytes: start, start+step, start+2*step ...
#[derive(Clone, Debug, PartialEq, Eq, Serialize, Deserialize)]
pub struct Blob {
    pub len: u32,
    pub start: u8,
    pub step: u8,
}

impl Blob {
    fn bytes(&self) -> Vec<u8> {
        (0..self.len).map(|i| self.start.wrapping_add((i as u8).wrapping_mul(self.step))).collect()
    }
}

/// `count` provider ASNs: base, base+step ...
#[derive(Clone, Debug, PartialEq, Eq, Serialize, Deserialize)]
pub struct Provs {
    pub count: u16,
    pub base: u32,
    pub step: u32,
}

impl Provs {
    fn asns(&self) -> Vec<u32> {
        (0..self.count as u32).map(|i| self.base.wrapping_add(self.step.wrapping_mul(i))).collect()
    }
}

#[derive(Clone, Debug, PartialEq, Eq, Serialize, Deserialize)]
pub enum PduSpec {
    SerialNotify { version: u8, session: u16, serial: u32 },
    SerialQuery { version: u8, session: u16, serial: u32 },
    ResetQuery { version: u8 },
    CacheResponse { version: u8, session: u16 },
    V4 { version: u8, flags: u8, len: u8, max_len: u8, addr: u32, asn: u32 },
    V6 { version: u8, flags: u8, len: u8, max_len: u8, addr: U128, asn: u32 },
    /// Built with `EndOfData::new`: version 0 gives the 12-octet form.
    Eod { version: u8, session: u16, serial: u32, refresh: u32, retry: u32, expire: u32 },
    CacheReset { version: u8 },
    RouterKey { version: u8, flags: u8, ski: (u8, u8), asn: u32, info: Blob },
    Error { version: u8, code: u16, pdu: Blob, text: Blob },
    Aspa { version: u8, flags: u8, customer: u32, provs: Provs },
}

fn ski_bytes(s: (u8, u8)) -> [u8; 20] {
    let mut r = [0u8; 20];
    for (i, b) in r.iter_mut().enumerate() {
        *b = s.0.wrapping_add((i as u8).wrapping_mul(s.1));
    }
    r
}

const T_NOTIFY: u8 = 0;
const T_SQUERY: u8 = 1;
const T_RQUERY: u8 = 2;
const T_RESPONSE: u8 = 3;
const T_V4: u8 = 4;
const T_V6: u8 = 6;
const T_EOD: u8 = 7;
const T_RESET: u8 = 8;
const T_KEY: u8 = 9;
const T_ERROR: u8 = 10;
const T_ASPA: u8 = 11;

/// Announced lengths above this are never given to a reader that allocates
/// the announced length up front (router key / ASPA bodies): memory is not
/// part of C07 and the harness must not run out of it.
const ALLOC_CAP: u32 = 1 << 20;

impl PduSpec {
    fn kind_label(&self) -> &'static str {
        match self {
            PduSpec::SerialNotify { .. } => "k:serial-notify",
            PduSpec::SerialQuery { .. } => "k:serial-query",
            PduSpec::ResetQuery { .. } => "k:reset-query",
            PduSpec::CacheResponse { .. } => "k:cache-response",
            PduSpec::V4 { .. } => "k:ipv4",
            PduSpec::V6 { .. } => "k:ipv6",
            PduSpec::Eod { .. } => "k:end-of-data",
            PduSpec::CacheReset { .. } => "k:cache-reset",
            PduSpec::RouterKey { .. } => "k:router-key",
            PduSpec::Error { .. } => "k:error",
            PduSpec::Aspa { .. } => "k:aspa",
        }
    }
    /// The version octet the PDU is built with.
    fn version(&self) -> u8 {
        match self {
            PduSpec::SerialNotify { version, .. } | PduSpec::SerialQuery { version, .. } | PduSpec::ResetQuery { version }
            | PduSpec::CacheResponse { version, .. } | PduSpec::V4 { version, .. } | PduSpec::V6 { version, .. }
            | PduSpec::Eod { version, .. } | PduSpec::CacheReset { version } | PduSpec::RouterKey { version, .. }
            | PduSpec::Error { version, .. } | PduSpec::Aspa { version, .. } => *version,
        }
    }

    fn variable(&self) -> bool {
        matches!(self, PduSpec::RouterKey { .. } | PduSpec::Error { .. } | PduSpec::Aspa { .. })
    }
}

//------------ library values --------------------------------------------------

#[derive(Clone, Debug, PartialEq, Eq)]
enum Lib {
    SerialNotify(pdu::SerialNotify),
    SerialQuery(pdu::SerialQuery),
    ResetQuery(pdu::ResetQuery),
    CacheResponse(pdu::CacheResponse),
    V4(pdu::Ipv4Prefix),
    V6(pdu::Ipv6Prefix),
    EodV0(pdu::EndOfDataV0),
    EodV1(pdu::EndOfDataV1),
    CacheReset(pdu::CacheReset),
    RouterKey(pdu::RouterKey),
    Error(pdu::Error),
    Aspa(pdu::Aspa),
}

#[derive(Clone, Copy, Debug, PartialEq, Eq)]
enum Kind {
    SerialNotify,
    SerialQuery,
    ResetQuery,
    CacheResponse,
    V4,
    V6,
    EodV0,
    EodV1,
    CacheReset,
    RouterKey,
    Error,
    Aspa,
}

impl Kind {
    fn type_byte(self) -> u8 {
        match self {
            Kind::SerialNotify => T_NOTIFY,
            Kind::SerialQuery => T_SQUERY,
            Kind::ResetQuery => T_RQUERY,
            Kind::CacheResponse => T_RESPONSE,
            Kind::V4 => T_V4,
            Kind::V6 => T_V6,
            Kind::EodV0 | Kind::EodV1 => T_EOD,
            Kind::CacheReset => T_RESET,
            Kind::RouterKey => T_KEY,
            Kind::Error => T_ERROR,
            Kind::Aspa => T_ASPA,
        }
    }
}

fn eod_to_lib(e: pdu::EndOfData) -> Lib {
    match e {
        pdu::EndOfData::V0(v) => Lib::EodV0(v),
        pdu::EndOfData::V1(v) => Lib::EodV1(v),
    }
}

fn provider_asns(v: &[u32]) -> Result<pdu::ProviderAsns, Fail> {
    pdu::ProviderAsns::try_from_iter(v.iter().map(|&a| Asn::from_u32(a)))
        .map_err(|e| Fail::new(format!("ProviderAsns::try_from_iter rejected {} providers: {}", v.len(), e)))
}

fn key_info(b: &Blob) -> Result<pdu::RouterKeyInfo, Fail> {
    pdu::RouterKeyInfo::new(bytes::Bytes::from(b.bytes()))
        .map_err(|e| Fail::new(format!("RouterKeyInfo::new rejected {} bytes: {}", b.len, e)))
}

fn build(spec: &PduSpec) -> Result<Lib, Fail> {
    Ok(match spec {
        PduSpec::SerialNotify { version, session, serial } => {
            Lib::SerialNotify(pdu::SerialNotify::new(*version, State::from_parts(*session, Serial(*serial))))
        }
        PduSpec::SerialQuery { version, session, serial } => {
            Lib::SerialQuery(pdu::SerialQuery::new(*version, State::from_parts(*session, Serial(*serial))))
        }
        PduSpec::ResetQuery { version } => Lib::ResetQuery(pdu::ResetQuery::new(*version)),
        PduSpec::CacheResponse { version, session } => {
            Lib::CacheResponse(pdu::CacheResponse::new(*version, State::from_parts(*session, Serial(0))))
        }
        PduSpec::V4 { version, flags, len, max_len, addr, asn } => Lib::V4(pdu::Ipv4Prefix::new(
            *version,
            *flags,
            *len,
            *max_len,
            Ipv4Addr::from(*addr),
            Asn::from_u32(*asn),
        )),
        PduSpec::V6 { version, flags, len, max_len, addr, asn } => Lib::V6(pdu::Ipv6Prefix::new(
            *version,
            *flags,
            *len,
            *max_len,
            Ipv6Addr::from(addr.0),
            Asn::from_u32(*asn),
        )),
        PduSpec::Eod { version, session, serial, refresh, retry, expire } => eod_to_lib(pdu::EndOfData::new(
            *version,
            State::from_parts(*session, Serial(*serial)),
            pl::Timing { refresh: *refresh, retry: *retry, expire: *expire },
        )),
        PduSpec::CacheReset { version } => Lib::CacheReset(pdu::CacheReset::new(*version)),
        PduSpec::RouterKey { version, flags, ski, asn, info } => Lib::RouterKey(pdu::RouterKey::new(
            *version,
            *flags,
            ski_bytes(*ski),
            Asn::from_u32(*asn),
            key_info(info)?,
        )),
        PduSpec::Error { version, code, pdu: p, text } => {
            Lib::Error(pdu::Error::new(*version, *code, p.bytes(), text.bytes()))
        }
        PduSpec::Aspa { version, flags, customer, provs } => Lib::Aspa(pdu::Aspa::new(
            *version,
            *flags,
            Asn::from_u32(*customer),
            provider_asns(&provs.asns())?,
        )),
    })
}

impl Lib {
    fn kind(&self) -> Kind {
        match self {
            Lib::SerialNotify(_) => Kind::SerialNotify,
            Lib::SerialQuery(_) => Kind::SerialQuery,
            Lib::ResetQuery(_) => Kind::ResetQuery,
            Lib::CacheResponse(_) => Kind::CacheResponse,
            Lib::V4(_) => Kind::V4,
            Lib::V6(_) => Kind::V6,
            Lib::EodV0(_) => Kind::EodV0,
            Lib::EodV1(_) => Kind::EodV1,
            Lib::CacheReset(_) => Kind::CacheReset,
            Lib::RouterKey(_) => Kind::RouterKey,
            Lib::Error(_) => Kind::Error,
            Lib::Aspa(_) => Kind::Aspa,
        }
    }

    /// Bytes produced by the library's `write`.
    fn write(&self) -> Result<Vec<u8>, Fail> {
        let mut out = Vec::new();
        let r = match self {
            Lib::SerialNotify(p) => drive("write", p.write(&mut out))?,
            Lib::SerialQuery(p) => drive("write", p.write(&mut out))?,
            Lib::ResetQuery(p) => drive("write", p.write(&mut out))?,
            Lib::CacheResponse(p) => drive("write", p.write(&mut out))?,
            Lib::V4(p) => drive("write", p.write(&mut out))?,
            Lib::V6(p) => drive("write", p.write(&mut out))?,
            Lib::EodV0(p) => drive("write", p.write(&mut out))?,
            Lib::EodV1(p) => drive("write", p.write(&mut out))?,
            Lib::CacheReset(p) => drive("write", p.write(&mut out))?,
            Lib::RouterKey(p) => drive("write", p.write(&mut out))?,
            Lib::Error(p) => drive("write", p.write(&mut out))?,
            Lib::Aspa(p) => drive("write", p.write(&mut out))?,
        };
        r.map_err(|e| Fail::new(format!("write into a Vec failed: {}", e)))?;
        Ok(out)
    }

    /// The same through a writer that takes short writes of the given sizes
    /// (and offers vectored writes): the octets on the wire must not depend on
    /// how the writer accepts them.
    fn write_short(&self, chunks: &[u8]) -> Result<Vec<u8>, Fail> {
        let mut w = MemWriter::new(chunks);
        let r = match self {
            Lib::SerialNotify(p) => drive("write (short writes)", p.write(&mut w))?,
            Lib::SerialQuery(p) => drive("write (short writes)", p.write(&mut w))?,
            Lib::ResetQuery(p) => drive("write (short writes)", p.write(&mut w))?,
            Lib::CacheResponse(p) => drive("write (short writes)", p.write(&mut w))?,
            Lib::V4(p) => drive("write (short writes)", p.write(&mut w))?,
            Lib::V6(p) => drive("write (short writes)", p.write(&mut w))?,
            Lib::EodV0(p) => drive("write (short writes)", p.write(&mut w))?,
            Lib::EodV1(p) => drive("write (short writes)", p.write(&mut w))?,
            Lib::CacheReset(p) => drive("write (short writes)", p.write(&mut w))?,
            Lib::RouterKey(p) => drive("write (short writes)", p.write(&mut w))?,
            Lib::Error(p) => drive("write (short writes)", p.write(&mut w))?,
            Lib::Aspa(p) => drive("write (short writes)", p.write(&mut w))?,
        };
        r.map_err(|e| Fail::new(format!("write into a short-writing writer failed: {}", e)))?;
        Ok(w.out)
    }

    /// The library's own idea of the PDU size, where it has one.
    fn size(&self) -> Option<u32> {
        Some(match self {
            Lib::SerialNotify(_) => pdu::SerialNotify::size(),
            Lib::SerialQuery(_) => pdu::SerialQuery::size(),
            Lib::ResetQuery(_) => pdu::ResetQuery::size(),
            Lib::CacheResponse(_) => pdu::CacheResponse::size(),
            Lib::V4(_) => pdu::Ipv4Prefix::size(),
            Lib::V6(_) => pdu::Ipv6Prefix::size(),
            Lib::EodV0(_) => pdu::EndOfDataV0::size(),
            Lib::EodV1(_) => pdu::EndOfDataV1::size(),
            Lib::CacheReset(_) => pdu::CacheReset::size(),
            Lib::RouterKey(p) => p.size(),
            Lib::Aspa(p) => p.size(),
            Lib::Error(_) => return None,
        })
    }
}

/// Accessor values of a library PDU against the values it was built from.
fn check_accessors(lib: &Lib, spec: &PduSpec, what: &str) -> CheckResult {
    match (lib, spec) {
        (Lib::SerialNotify(p), PduSpec::SerialNotify { version, session, .. }) => {
            ensure!(p.version() == *version && p.session() == *session, "{}: SerialNotify accessors {:?} vs {:?}", what, p, spec);
        }
        (Lib::SerialQuery(p), PduSpec::SerialQuery { version, session, .. }) => {
            ensure!(p.version() == *version && p.session() == *session, "{}: SerialQuery accessors {:?} vs {:?}", what, p, spec);
        }
        (Lib::ResetQuery(p), PduSpec::ResetQuery { version }) => {
            ensure!(p.version() == *version && p.session() == 0, "{}: ResetQuery accessors {:?} vs {:?}", what, p, spec);
        }
        (Lib::CacheResponse(p), PduSpec::CacheResponse { version, session }) => {
            ensure!(p.version() == *version && p.session() == *session, "{}: CacheResponse accessors {:?} vs {:?}", what, p, spec);
        }
        (Lib::CacheReset(p), PduSpec::CacheReset { version }) => {
            ensure!(p.version() == *version && p.session() == 0, "{}: CacheReset accessors {:?} vs {:?}", what, p, spec);
        }
        (Lib::V4(p), PduSpec::V4 { version, flags, len, max_len, addr, asn }) => {
            ensure!(
                p.version() == *version
                    && p.flags() == *flags
                    && p.prefix_len() == *len
                    && p.max_len() == *max_len
                    && p.prefix() == Ipv4Addr::from(*addr)
                    && p.asn() == Asn::from_u32(*asn),
                "{}: Ipv4Prefix accessors: version {} flags {} len {} max {} prefix {} asn {} vs {:?}",
                what, p.version(), p.flags(), p.prefix_len(), p.max_len(), p.prefix(), p.asn(), spec
            );
        }
        (Lib::V6(p), PduSpec::V6 { version, flags, len, max_len, addr, asn }) => {
            ensure!(
                p.version() == *version
                    && p.flags() == *flags
                    && p.prefix_len() == *len
                    && p.max_len() == *max_len
                    && p.prefix() == Ipv6Addr::from(addr.0)
                    && p.asn() == Asn::from_u32(*asn),
                "{}: Ipv6Prefix accessors: version {} flags {} len {} max {} prefix {} asn {} vs {:?}",
                what, p.version(), p.flags(), p.prefix_len(), p.max_len(), p.prefix(), p.asn(), spec
            );
        }
        (Lib::EodV0(p), PduSpec::Eod { version, session, serial, .. }) => {
            ensure!(*version == 0, "{}: EndOfData::new({}) built the version 0 form", what, version);
            ensure!(
                p.version() == 0 && p.session() == *session && p.serial() == Serial(*serial),
                "{}: EndOfDataV0 accessors {:?} vs {:?}", what, p, spec
            );
            let e = pdu::EndOfData::V0(*p);
            ensure!(
                e.version() == 0 && e.session() == *session && e.serial() == Serial(*serial) && e.timing().is_none()
                    && e.state().session() == *session && e.state().serial() == Serial(*serial),
                "{}: EndOfData accessors {:?} vs {:?}", what, e, spec
            );
        }
        (Lib::EodV1(p), PduSpec::Eod { version, session, serial, refresh, retry, expire }) => {
            let t = p.timing();
            ensure!(
                p.version() == *version && p.session() == *session && p.serial() == Serial(*serial)
                    && t.refresh == *refresh && t.retry == *retry && t.expire == *expire,
                "{}: EndOfDataV1 accessors {:?} vs {:?}", what, p, spec
            );
            let e = pdu::EndOfData::V1(*p);
            let t = e.timing();
            ensure!(
                e.version() == *version && e.session() == *session && e.serial() == Serial(*serial)
                    && e.state().session() == *session && e.state().serial() == Serial(*serial)
                    && t.map(|t| (t.refresh, t.retry, t.expire)) == Some((*refresh, *retry, *expire)),
                "{}: EndOfData accessors {:?} vs {:?}", what, e, spec
            );
        }
        (Lib::RouterKey(p), PduSpec::RouterKey { version, flags, ski, asn, info }) => {
            ensure!(
                p.version() == *version && p.flags() == *flags && p.key_identifier() == ski_bytes(*ski)
                    && p.asn() == Asn::from_u32(*asn) && p.key_info().as_slice() == &info.bytes()[..],
                "{}: RouterKey accessors: version {} flags {} ski {:?} asn {} info-len {} vs {:?}",
                what, p.version(), p.flags(), p.key_identifier(), p.asn(), p.key_info().as_slice().len(), spec
            );
        }
        (Lib::Aspa(p), PduSpec::Aspa { version, flags, customer, provs }) => {
            let got: Vec<u32> = p.providers().iter().map(|a| a.into_u32()).collect();
            ensure!(
                p.version() == *version && p.flags() == *flags && p.customer() == Asn::from_u32(*customer)
                    && got == provs.asns() && p.providers().asn_count() == provs.count
                    && p.providers().len() == 4 * provs.count as usize,
                "{}: Aspa accessors: version {} flags {} customer {} providers {:?} vs {:?}",
                what, p.version(), p.flags(), p.customer(), got, spec
            );
        }
        (Lib::Error(p), PduSpec::Error { version, code, pdu: inner, text }) => {
            // No reader returns an `Error` value; the header accessors are
            // checked on the header read back, the body layout (RFC 8210
            // section 5.11) here.
            let b: &[u8] = p.as_ref();
            let (ib, tb) = (inner.bytes(), text.bytes());
            let mut exp = vec![*version, T_ERROR];
            exp.extend_from_slice(&code.to_be_bytes());
            exp.extend_from_slice(&((16 + ib.len() + tb.len()) as u32).to_be_bytes());
            exp.extend_from_slice(&(ib.len() as u32).to_be_bytes());
            exp.extend_from_slice(&ib);
            exp.extend_from_slice(&(tb.len() as u32).to_be_bytes());
            exp.extend_from_slice(&tb);
            ensure!(b == &exp[..], "{}: Error PDU octets {:?} differ from header|len|pdu|len|text {:?}", what, b, exp);
        }
        _ => return Err(Fail::new(format!("{}: PDU kind changed: {:?} vs {:?}", what, lib, spec))),
    }
    Ok(())
}

//------------ readers ----------------------------------------------------------

#[derive(Clone, Copy, Debug, PartialEq, Eq)]
enum Rd {
    /// `T::read`
    Read,
    /// `T::try_read`
    TryRead,
    /// `Header::read`, then `read_payload` / `skip_payload` of the announced type
    Dispatch,
    /// `pdu::Payload::read`
    Payload,
}

#[derive(Debug)]
enum Got {
    Pdu(Lib),
    /// `try_read` met an error PDU
    ErrHeader(pdu::Header),
    /// `skip_payload` returned Ok
    Skipped(pdu::Header),
    /// the dispatcher met a type it has no reader for
    Unknown,
    Io(io::Error),
}

macro_rules! concrete_reader {
    ($T:ident, $V:ident, $rd:expr, $r:expr) => {
        match $rd {
            Rd::Read => match drive(concat!(stringify!($T), "::read"), pdu::$T::read($r))? {
                Ok(v) => Got::Pdu(Lib::$V(v)),
                Err(e) => Got::Io(e),
            },
            _ => match drive(concat!(stringify!($T), "::try_read"), pdu::$T::try_read($r))? {
                Ok(Ok(v)) => Got::Pdu(Lib::$V(v)),
                Ok(Err(h)) => Got::ErrHeader(h),
                Err(e) => Got::Io(e),
            },
        }
    };
}

macro_rules! payload_reader {
    ($T:ident, $V:ident, $h:expr, $r:expr) => {
        match drive(concat!(stringify!($T), "::read_payload"), pdu::$T::read_payload($h, $r))? {
            Ok(v) => Got::Pdu(Lib::$V(v)),
            Err(e) => Got::Io(e),
        }
    };
}

/// Which readers a peer expecting a PDU of kind `k` may use.
fn readers_for(k: Kind) -> &'static [Rd] {
    match k {
        Kind::SerialNotify | Kind::SerialQuery | Kind::ResetQuery | Kind::CacheResponse | Kind::CacheReset => {
            &[Rd::Read, Rd::TryRead, Rd::Dispatch]
        }
        Kind::V4 | Kind::V6 | Kind::EodV0 | Kind::EodV1 => &[Rd::Read, Rd::TryRead, Rd::Dispatch, Rd::Payload],
        Kind::RouterKey | Kind::Aspa => &[Rd::Read, Rd::Dispatch, Rd::Payload],
        // TryRead: a peer waiting for a cache response meets the error PDU
        Kind::Error => &[Rd::Dispatch, Rd::TryRead],
    }
}

fn run_reader(rd: Rd, k: Kind, r: &mut MemReader) -> Result<Got, Fail> {
    Ok(match rd {
        Rd::Read | Rd::TryRead => match k {
            Kind::SerialNotify => concrete_reader!(SerialNotify, SerialNotify, rd, r),
            Kind::SerialQuery => concrete_reader!(SerialQuery, SerialQuery, rd, r),
            Kind::ResetQuery => concrete_reader!(ResetQuery, ResetQuery, rd, r),
            // an error PDU is met by a peer waiting for a cache response
            Kind::CacheResponse | Kind::Error => concrete_reader!(CacheResponse, CacheResponse, rd, r),
            Kind::V4 => concrete_reader!(Ipv4Prefix, V4, rd, r),
            Kind::V6 => concrete_reader!(Ipv6Prefix, V6, rd, r),
            Kind::EodV0 => concrete_reader!(EndOfDataV0, EodV0, rd, r),
            Kind::EodV1 => concrete_reader!(EndOfDataV1, EodV1, rd, r),
            Kind::CacheReset => concrete_reader!(CacheReset, CacheReset, rd, r),
            Kind::RouterKey => match drive("RouterKey::read", pdu::RouterKey::read(r))? {
                Ok(v) => Got::Pdu(Lib::RouterKey(v)),
                Err(e) => Got::Io(e),
            },
            Kind::Aspa => match drive("Aspa::read", pdu::Aspa::read(r))? {
                Ok(v) => Got::Pdu(Lib::Aspa(v)),
                Err(e) => Got::Io(e),
            },
        },
        Rd::Dispatch => {
            let h = match drive("Header::read", pdu::Header::read(r))? {
                Ok(h) => h,
                Err(e) => return Ok(Got::Io(e)),
            };
            match h.pdu() {
                T_NOTIFY => payload_reader!(SerialNotify, SerialNotify, h, r),
                T_SQUERY => payload_reader!(SerialQuery, SerialQuery, h, r),
                T_RQUERY => payload_reader!(ResetQuery, ResetQuery, h, r),
                T_RESPONSE => payload_reader!(CacheResponse, CacheResponse, h, r),
                T_V4 => payload_reader!(Ipv4Prefix, V4, h, r),
                T_V6 => payload_reader!(Ipv6Prefix, V6, h, r),
                T_RESET => payload_reader!(CacheReset, CacheReset, h, r),
                T_KEY => payload_reader!(RouterKey, RouterKey, h, r),
                T_ASPA => payload_reader!(Aspa, Aspa, h, r),
                T_EOD => match drive("EndOfData::read_payload", pdu::EndOfData::read_payload(h, r))? {
                    Ok(v) => Got::Pdu(eod_to_lib(v)),
                    Err(e) => Got::Io(e),
                },
                T_ERROR => match drive("Error::skip_payload", pdu::Error::skip_payload(h, r))? {
                    Ok(()) => Got::Skipped(h),
                    Err(e) => Got::Io(e),
                },
                _ => Got::Unknown,
            }
        }
        Rd::Payload => match drive("Payload::read", pdu::Payload::read(r))? {
            Ok(Ok(Some(pdu::Payload::V4(v)))) => Got::Pdu(Lib::V4(v)),
            Ok(Ok(Some(pdu::Payload::V6(v)))) => Got::Pdu(Lib::V6(v)),
            Ok(Ok(Some(pdu::Payload::RouterKey(v)))) => Got::Pdu(Lib::RouterKey(v)),
            Ok(Ok(Some(pdu::Payload::Aspa(v)))) => Got::Pdu(Lib::Aspa(v)),
            Ok(Ok(Some(other))) => return Err(Fail::new(format!("Payload::read returned unknown variant {:?}", other))),
            Ok(Ok(None)) => return Err(Fail::new("Payload::read returned Ok(None) for a payload type the crate supports")),
            Ok(Err(eod)) => Got::Pdu(eod_to_lib(eod)),
            Err(e) => Got::Io(e),
        },
    })
}

//------------ reference model of the readers' header rules ---------------------

#[derive(Clone, Copy, Debug, PartialEq, Eq)]
enum EodRule {
    ByVersion,
    V0,
    V1,
}

/// Is `len` a possible length of a PDU of type `t`? `None`: unknown type.
fn len_rule(t: u8, ver: u8, len: u32, eod: EodRule) -> Option<bool> {
    Some(match t {
        T_NOTIFY | T_SQUERY => len == 12,
        T_RQUERY | T_RESPONSE | T_RESET => len == 8,
        T_V4 => len == 20,
        T_V6 => len == 32,
        T_KEY => len >= 32,
        T_ASPA => len >= 12 && (len - 12) % 4 == 0,
        T_ERROR => len >= 8,
        T_EOD => match eod {
            EodRule::V0 => len == 12,
            EodRule::V1 => len == 24,
            EodRule::ByVersion => match ver {
                0 => len == 12,
                1 | 2 => len == 24,
                _ => false,
            },
        },
        _ => return None,
    })
}

#[derive(Clone, Copy, Debug, PartialEq, Eq)]
enum Exp {
    Err,
    /// Ok after consuming exactly this many bytes
    Ok(usize),
    /// Version octet above 2 (or an Error PDU too short for its own length
    /// fields): the statement pins down versions 0-2 and says a
    /// wrong version ends in an error; whether a reader at this layer already
    /// refuses such a PDU or leaves that to its caller is open. Either Ok
    /// after exactly this many bytes, or an error within the byte bound.
    Either(usize),
    ErrHeader,
    Unknown,
    /// reader not run: it would allocate the (huge) announced length
    Skip,
}

fn header_of(s: &[u8]) -> Option<(u8, u8, u32)> {
    if s.len() < 8 {
        None
    } else {
        Some((s[0], s[1], u32::from_be_bytes([s[4], s[5], s[6], s[7]])))
    }
}

/// What reader `rd` of a peer expecting kind `k` must do on stream `s`.
fn model(rd: Rd, k: Kind, s: &[u8]) -> Exp {
    let Some((ver, t, len)) = header_of(s) else { return Exp::Err };
    let (want_t, eod) = match rd {
        Rd::Read | Rd::TryRead => {
            if rd == Rd::TryRead && t == T_ERROR {
                return Exp::ErrHeader;
            }
            let kk = if k == Kind::Error { Kind::CacheResponse } else { k };
            let eod = match kk {
                Kind::EodV0 => EodRule::V0,
                Kind::EodV1 => EodRule::V1,
                _ => EodRule::ByVersion,
            };
            (Some(kk.type_byte()), eod)
        }
        Rd::Dispatch => (None, EodRule::ByVersion),
        Rd::Payload => {
            if !matches!(t, T_V4 | T_V6 | T_KEY | T_ASPA | T_EOD) {
                return Exp::Err;
            }
            (None, EodRule::ByVersion)
        }
    };
    if let Some(w) = want_t {
        if t != w {
            return Exp::Err;
        }
    }
    match len_rule(t, ver, len, eod) {
        None => Exp::Unknown,
        Some(false) => Exp::Err,
        Some(true) => {
            if matches!(t, T_KEY | T_ASPA) && len > ALLOC_CAP {
                Exp::Skip
            } else if (s.len() as u64) < len as u64 {
                Exp::Err
            } else if ver > 2 || (t == T_ERROR && len < 16) {
                // (an Error PDU of 8..15 octets lacks its two mandatory length fields, RFC 8210
                // 5.11: the routine that skips it may or may not notice)
                Exp::Either(len as usize)
            } else {
                Exp::Ok(len as usize)
            }
        }
    }
}

fn got_name(g: &Got) -> String {
    match g {
        Got::Pdu(l) => format!("Ok({:?})", l.kind()),
        Got::ErrHeader(h) => format!("Ok(Err(header type {}))", h.pdu()),
        Got::Skipped(_) => "Ok(skipped)".into(),
        Got::Unknown => "unknown type (dispatcher stops)".into(),
        Got::Io(e) => format!("Err({})", e),
    }
}

/// Runs one reader on `s` and judges the outcome. Returns what was read.
fn read_and_judge(rd: Rd, k: Kind, s: &[u8], chunks: &[u8], what: &str) -> Result<Option<Got>, Fail> {
    let exp = model(rd, k, s);
    if exp == Exp::Skip {
        return Ok(None);
    }
    let mut r = MemReader::new(s, chunks);
    let got = run_reader(rd, k, &mut r)?;
    let ctx = || format!("{} {:?} expecting {:?} on {} octets (header {:?})", what, rd, k, s.len(), header_of(s));
    ensure_sig!(
        !r.aborted && r.eof_polls <= EOF_POLL_LIMIT,
        if matches!(rd, Rd::Dispatch) && header_of(s).map(|h| h.1) == Some(T_ERROR) {
            "eof-spin:Error::skip_payload".to_string()
        } else {
            format!("eof-spin:{:?}", rd)
        },
        "{}: reader polled {} times at end of stream{} (limit {}): the operation spins on a closed stream; result {}",
        ctx(), r.eof_polls, if r.aborted { " and had to be aborted" } else { "" }, EOF_POLL_LIMIT, got_name(&got)
    );
    let served = r.served();
    match exp {
        Exp::Err => {
            ensure!(matches!(got, Got::Io(_)), "{}: expected an error, got {}", ctx(), got_name(&got));
            if let Some((_, _, len)) = header_of(s) {
                let bound = (len as usize).max(8);
                ensure!(served <= bound, "{}: failed after consuming {} octets, more than max(8, announced length) = {}", ctx(), served, bound);
            }
        }
        Exp::Ok(n) => {
            ensure!(matches!(got, Got::Pdu(_) | Got::Skipped(_)), "{}: expected success, got {}", ctx(), got_name(&got));
            ensure!(served == n, "{}: succeeded after consuming {} octets, announced length is {}", ctx(), served, n);
        }
        Exp::Either(n) => match &got {
            Got::Pdu(_) | Got::Skipped(_) => {
                ensure!(served == n, "{}: succeeded after consuming {} octets, announced length is {}", ctx(), served, n);
            }
            Got::Io(_) => {
                let bound = n.max(8);
                ensure!(served <= bound, "{}: failed after consuming {} octets, more than max(8, announced length) = {}", ctx(), served, bound);
            }
            _ => return Err(Fail::new(format!("{}: expected success or an error, got {}", ctx(), got_name(&got)))),
        },
        Exp::ErrHeader => {
            match &got {
                Got::ErrHeader(h) => {
                    ensure!(h.pdu() == T_ERROR && h.version() == s[0], "{}: try_read returned header {:?}", ctx(), h)
                }
                _ => return Err(Fail::new(format!("{}: expected Ok(Err(header)), got {}", ctx(), got_name(&got)))),
            }
            ensure!(served == 8, "{}: try_read consumed {} octets for the header of an error PDU", ctx(), served);
        }
        Exp::Unknown => {
            ensure!(matches!(got, Got::Unknown), "{}: harness dispatcher: {}", ctx(), got_name(&got));
        }
        Exp::Skip => unreachable!(),
    }
    Ok(Some(got))
}

//------------ generators -------------------------------------------------------

fn version_s() -> BoxedStrategy<u8> {
    prop_oneof![8 => 0u8..=2, 1 => 3u8..=255].boxed()
}

fn flags_s() -> BoxedStrategy<u8> {
    prop_oneof![4 => 0u8..=1, 1 => any::<u8>(), 1 => prop::sample::select(vec![2u8, 3, 128, 129, 254, 255])].boxed()
}

/// Blob of up to `max` bytes; `big` is the weight (out of ~20) of sizes above 96.
fn blob_s(max: u32, big: u32) -> BoxedStrategy<Blob> {
    let len = prop_oneof![
        8 => 0u32..=8,
        8 => 0u32..=96.min(max),
        big => 0u32..=max,
        big => (max.saturating_sub(3))..=max,
    ];
    (len, any::<u8>(), prop_oneof![Just(0u8), Just(1), any::<u8>()]).prop_map(|(len, start, step)| Blob { len, start, step }).boxed()
}

fn provs_s(max: u16, big: u32) -> BoxedStrategy<Provs> {
    // `big >= 2` (round trip and payload sub-checks, not the quadratic truncation
    // sweep) also reaches the largest provider lists a PDU can carry
    // (ProviderAsns::MAX_COUNT = 16380, a 65532-octet PDU).
    let near_max = if big >= 2 { 1 } else { 0 };
    let count = prop_oneof![
        8 => 0u16..=3,
        6 => 0u16..=24.min(max),
        big => 0u16..=max,
        big => (max.saturating_sub(1))..=max,
        near_max => 16370u16..=16380,
    ];
    (count, dense_u32(), prop_oneof![Just(1u32), Just(0), dense_u32()]).prop_map(|(count, base, step)| Provs { count, base, step }).boxed()
}

fn len_byte_s(fam: u8) -> BoxedStrategy<u8> {
    prop_oneof![6 => 0u8..=fam, 1 => fam..=fam.saturating_add(2), 1 => any::<u8>()].boxed()
}

/// `big`: weight of large variable parts (keeps the quadratic truncation
/// sweep affordable).
fn pdu_s(big: u32) -> BoxedStrategy<PduSpec> {
    let v = version_s;
    prop_oneof![
        (v(), any::<u16>(), dense_u32()).prop_map(|(version, session, serial)| PduSpec::SerialNotify { version, session, serial }),
        (v(), any::<u16>(), dense_u32()).prop_map(|(version, session, serial)| PduSpec::SerialQuery { version, session, serial }),
        v().prop_map(|version| PduSpec::ResetQuery { version }),
        (v(), any::<u16>()).prop_map(|(version, session)| PduSpec::CacheResponse { version, session }),
        (v(), flags_s(), len_byte_s(32), len_byte_s(32), dense_u32(), dense_u32(), any::<bool>()).prop_map(
            |(version, flags, len, max_len, addr, asn, align)| {
                let addr = if align && len <= 32 { if len == 0 { 0 } else { addr & (u32::MAX << (32 - len as u32)) } } else { addr };
                PduSpec::V4 { version, flags, len, max_len, addr, asn }
            }
        ),
        (v(), flags_s(), len_byte_s(128), len_byte_s(128), dense_u128(), dense_u32(), any::<bool>()).prop_map(
            |(version, flags, len, max_len, addr, asn, align)| {
                let addr = if align && len <= 128 { if len == 0 { 0 } else { addr & (u128::MAX << (128 - len as u32)) } } else { addr };
                PduSpec::V6 { version, flags, len, max_len, addr: U128(addr), asn }
            }
        ),
        (v(), any::<u16>(), dense_u32(), dense_u32(), dense_u32(), dense_u32()).prop_map(
            |(version, session, serial, refresh, retry, expire)| PduSpec::Eod { version, session, serial, refresh, retry, expire }
        ),
        v().prop_map(|version| PduSpec::CacheReset { version }),
        (v(), flags_s(), any::<(u8, u8)>(), dense_u32(), blob_s(4096, big))
            .prop_map(|(version, flags, ski, asn, info)| PduSpec::RouterKey { version, flags, ski, asn, info }),
        (v(), prop_oneof![3 => 0u16..=11, 1 => any::<u16>()], blob_s(2048, big), blob_s(2048, big))
            .prop_map(|(version, code, pdu, text)| PduSpec::Error { version, code, pdu, text }),
        (v(), flags_s(), dense_u32(), provs_s(300, big))
            .prop_map(|(version, flags, customer, provs)| PduSpec::Aspa { version, flags, customer, provs }),
    ]
    .boxed()
}

fn chunks_s() -> BoxedStrategy<Vec<u8>> {
    prop_oneof![
        1 => Just(vec![0u8]),
        1 => Just(vec![1u8]),
        4 => prop::collection::vec(1u8..=11, 1..6),
        2 => prop::collection::vec(prop_oneof![3 => 1u8..=11, 1 => 12u8..=255, 1 => Just(0u8)], 1..8),
    ]
    .boxed()
}

#[derive(Clone, Debug, Serialize, Deserialize)]
pub struct SeqCase {
    pub pdus: Vec<PduSpec>,
    pub chunks: Vec<u8>,
}

fn seq_strategy(_: Tier) -> BoxedStrategy<SeqCase> {
    (prop::collection::vec(pdu_s(2), 1..=6), chunks_s()).prop_map(|(pdus, chunks)| SeqCase { pdus, chunks }).boxed()
}

fn seq_strategy_small(_: Tier) -> BoxedStrategy<SeqCase> {
    (prop::collection::vec(pdu_s(1), 1..=6), chunks_s()).prop_map(|(pdus, chunks)| SeqCase { pdus, chunks }).boxed()
}

/// Builds and writes all PDUs: (library value, octets) per PDU.
fn encode_all(pdus: &[PduSpec]) -> Result<Vec<(Lib, Vec<u8>)>, Fail> {
    pdus.iter()
        .map(|s| {
            let l = build(s)?;
            let b = l.write()?;
            Ok((l, b))
        })
        .collect()
}

/// Class labels count cases, not occurrences.
fn label_once(obs: &mut Obs, l: &'static str) {
    if !obs.labels.contains(&l) {
        obs.label(l);
    }
}

//------------ roundtrip --------------------------------------------------------

/// What `to_payload` must give for an origin PDU with these raw fields.
fn expected_origin(v6: bool, addr: u128, len: u8, max_len: u8, asn: u32) -> Option<pl::Payload> {
    let fam = if v6 { 128 } else { 32 };
    if len > fam || max_len < len || max_len > fam {
        return None;
    }
    let host = (fam - len) as u32;
    let cleared = if host == 0 { addr } else if host >= 128 { 0 } else { addr & !((1u128 << host) - 1) };
    let p = if v6 {
        Prefix::new_v6(Ipv6Addr::from(cleared), len)
    } else {
        Prefix::new_v4(Ipv4Addr::from(cleared as u32), len)
    }
    .ok()?;
    Some(pl::Payload::origin(MaxLenPrefix::new(p, Some(max_len)).ok()?, Asn::from_u32(asn)))
}

fn as_payload_pdu(l: &Lib) -> Option<pdu::Payload> {
    match l {
        Lib::V4(p) => Some(pdu::Payload::V4(*p)),
        Lib::V6(p) => Some(pdu::Payload::V6(*p)),
        Lib::RouterKey(p) => Some(pdu::Payload::RouterKey(p.clone())),
        Lib::Aspa(p) => Some(pdu::Payload::Aspa(p.clone())),
        _ => None,
    }
}

/// `to_payload` of a payload PDU read back, against the harness' expectation.
fn check_to_payload(p: &pdu::Payload, spec: &PduSpec) -> CheckResult {
    let res = no_panic("to_payload", || p.to_payload())?;
    let (flags, exp): (u8, Option<pl::Payload>) = match spec {
        PduSpec::V4 { flags, len, max_len, addr, asn, .. } => (*flags, expected_origin(false, *addr as u128, *len, *max_len, *asn)),
        PduSpec::V6 { flags, len, max_len, addr, asn, .. } => (*flags, expected_origin(true, addr.0, *len, *max_len, *asn)),
        PduSpec::RouterKey { flags, ski, asn, info, .. } => (
            *flags,
            Some(pl::Payload::router_key(KeyIdentifier::from(ski_bytes(*ski)), Asn::from_u32(*asn), key_info(info)?)),
        ),
        PduSpec::Aspa { flags, customer, provs, .. } => {
            // a withdrawal names the customer only: the provider list is dropped
            let pr = if flags & 1 == 1 { provs.asns() } else { Vec::new() };
            (*flags, Some(pl::Payload::aspa(Asn::from_u32(*customer), provider_asns(&pr)?)))
        }
        _ => return Ok(()),
    };
    ensure!(p.flags() == flags, "Payload::flags() = {} for {:?}", p.flags(), spec);
    let exp_action = if flags & 1 == 1 { pl::Action::Announce } else { pl::Action::Withdraw };
    match (res, exp) {
        (Ok((action, item)), Some(exp)) => {
            ensure!(action == exp_action, "to_payload of {:?}: action {:?}, expected {:?}", spec, action, exp_action);
            ensure!(item == exp, "to_payload of {:?}: item {:?}, expected {:?}", spec, item, exp);
            if let Err(e) = same_item(&item, &exp) {
                return Err(Fail::sig("c07:item-not-interchangeable", format!("to_payload of {:?}: {}", spec, e)));
            }
            if let (pl::Payload::Origin(a), pl::Payload::Origin(b)) = (&item, &exp) {
                ensure!(
                    a.prefix.prefix() == b.prefix.prefix() && a.prefix.resolved_max_len() == b.prefix.resolved_max_len() && a.asn == b.asn,
                    "to_payload of {:?}: origin fields {:?}, expected {:?}", spec, a, b
                );
            }
        }
        (Err(_), None) => {}
        (Ok(got), None) => {
            return Err(Fail::new(format!("to_payload accepted {:?}, which is no valid origin: {:?}", spec, got)));
        }
        (Err(_), Some(exp)) => {
            // A prefix PDU with bits set behind the prefix length is not the wire form of any
            // payload item (items have the host bits clear): the reader may normalise it (the
            // expectation above) or refuse it. Everything else must come back.
            let host_bits = match spec {
                PduSpec::V4 { len, addr, .. } => *len < 32 && (*addr as u64) & ((1u64 << (32 - *len as u32)) - 1) != 0,
                PduSpec::V6 { len, addr, .. } => *len < 128 && addr.0 & (if *len == 0 { u128::MAX } else { (1u128 << (128 - *len as u32)) - 1 }) != 0,
                _ => false,
            };
            if !host_bits {
                return Err(Fail::new(format!("to_payload rejected {:?}, expected {:?}", spec, exp)));
            }
        }
    }
    Ok(())
}

fn run_roundtrip(c: &SeqCase, obs: &mut Obs) -> CheckResult {
    let enc = encode_all(&c.pdus)?;
    let mut stream = Vec::new();
    let mut evals = 0u64;
    for (i, ((lib, bytes), spec)) in enc.iter().zip(&c.pdus).enumerate() {
        label_once(obs, spec.kind_label());
        check_accessors(lib, spec, "constructed")?;
        // length field == bytes written (== the library's size())
        let Some((ver, t, len)) = header_of(bytes) else {
            return Err(Fail::new(format!("PDU {} {:?}: only {} octets written", i, spec, bytes.len())));
        };
        ensure!(
            len as usize == bytes.len(),
            "PDU {} {:?}: length field says {}, {} octets written", i, spec, len, bytes.len()
        );
        if let Some(sz) = lib.size() {
            ensure!(sz as usize == bytes.len(), "PDU {} {:?}: size() = {}, {} octets written", i, spec, sz, bytes.len());
        }
        ensure!(t == lib.kind().type_byte(), "PDU {} {:?}: type octet {}", i, spec, t);
        // the same octets through a writer that accepts them in short writes
        let short = lib.write_short(&c.chunks)?;
        ensure_sig!(
            &short == bytes, "write-depends-on-writer",
            "PDU {} {:?}: {} octets arrive at a writer taking short writes {:?}, {} at a Vec (length field {})",
            i, spec, short.len(), c.chunks, bytes.len(), len
        );
        stream.extend_from_slice(bytes);
        // every reader on this PDU followed by the rest of the sequence
        let mut tail = bytes.clone();
        for (_, b) in &enc[i + 1..] {
            tail.extend_from_slice(b);
        }
        for &rd in readers_for(lib.kind()) {
            // a version outside 0..=2 makes the version-split end-of-data readers refuse
            let Some(got) = read_and_judge(rd, lib.kind(), &tail, &c.chunks, "intact")? else { continue };
            evals += 1;
            match got {
                Got::Pdu(back) => {
                    ensure!(&back == lib, "{:?} of PDU {}: read {:?}, written {:?}", rd, i, back, lib);
                    check_accessors(&back, spec, "read back")?;
                    if rd == Rd::Payload {
                        if let Some(p) = as_payload_pdu(&back) {
                            ensure!(p.version() == ver, "Payload::version() = {} for {:?}", p.version(), spec);
                            check_to_payload(&p, spec)?;
                        }
                    }
                }
                Got::Skipped(h) | Got::ErrHeader(h) => {
                    let PduSpec::Error { version, code, .. } = spec else {
                        return Err(Fail::new(format!("{:?} of PDU {} {:?}: treated as an error PDU", rd, i, spec)));
                    };
                    ensure!(
                        h.version() == *version && h.pdu() == T_ERROR && h.session() == *code && h.length() as usize == bytes.len()
                            && h.pdu_len().ok() == Some(bytes.len()),
                        "header of error PDU read back as {:?}, built from {:?}", h, spec
                    );
                }
                Got::Io(e) => {
                    // only legitimate for end-of-data with a version the split does not know
                    // legitimate only for a version octet above 2 (see Exp::Either)
                    let eod_version = spec.version() > 2;
                    ensure!(
                        eod_version,
                        "{:?} of intact PDU {} {:?} failed: {}", rd, i, spec, e
                    );
                }
                Got::Unknown => return Err(Fail::new(format!("PDU {} {:?}: type octet {} unknown to the dispatcher", i, spec, t))),
            }
        }
        if let (Lib::SerialQuery(_), PduSpec::SerialQuery { serial, .. }) = (lib, spec) {
            // the server's way of reading a serial query
            let mut r = MemReader::new(bytes, &c.chunks);
            let h = drive("Header::read", pdu::Header::read(&mut r))?.map_err(|e| Fail::new(format!("Header::read: {}", e)))?;
            let p = drive("SerialQueryPayload::read", pdu::SerialQueryPayload::read(&mut r))?
                .map_err(|e| Fail::new(format!("SerialQueryPayload::read: {}", e)))?;
            ensure!(
                h.pdu() == T_SQUERY && h.length() == 12 && p.serial() == Serial(*serial) && r.served() == 12,
                "serial query read as header {:?} + payload serial {:?}, built from {:?}", h, p.serial(), spec
            );
        }
    }
    // the whole sequence through the dispatcher, one PDU after the other
    let mut r = MemReader::new(&stream, &c.chunks);
    for (i, (lib, bytes)) in enc.iter().enumerate() {
        let before = r.served();
        let got = run_reader(Rd::Dispatch, lib.kind(), &mut r)?;
        let eod_version = c.pdus[i].version() > 2;
        match got {
            Got::Pdu(back) => ensure!(&back == lib, "sequence position {}: read {:?}, written {:?}", i, back, lib),
            Got::Skipped(_) => ensure!(matches!(lib, Lib::Error(_)), "sequence position {}: skipped a non-error PDU", i),
            Got::Io(_) if eod_version => break,
            other => return Err(Fail::new(format!("sequence position {} ({:?}): {}", i, c.pdus[i], got_name(&other)))),
        }
        ensure!(r.served() - before == bytes.len(), "sequence position {}: consumed {} of {} octets", i, r.served() - before, bytes.len());
        if i + 1 == enc.len() {
            let end = run_reader(Rd::Dispatch, lib.kind(), &mut r)?;
            ensure!(matches!(end, Got::Io(_)) && r.eof_polls <= EOF_POLL_LIMIT && !r.aborted, "reading past the end of the sequence: {}", got_name(&end));
        }
    }
    obs.evals(evals);
    obs.nontrivial_if(c.pdus.iter().any(|p| p.variable()));
    obs.label_if(c.pdus.iter().any(|p| p.variable()), "variable-length");
    Ok(())
}

//------------ truncate ---------------------------------------------------------

fn run_truncate(c: &SeqCase, obs: &mut Obs) -> CheckResult {
    let enc = encode_all(&c.pdus)?;
    let mut evals = 0u64;
    let mut body = false;
    for (i, (lib, bytes)) in enc.iter().enumerate() {
        label_once(obs, c.pdus[i].kind_label());
        let k = lib.kind();
        // Reading the sequence up to a cut inside PDU i reads PDUs 0..i in
        // full (covered by roundtrip) and then meets this prefix.
        for cut in 0..bytes.len() {
            let s = &bytes[..cut];
            body |= cut > 8;
            for &rd in readers_for(k) {
                let exp = model(rd, k, s);
                if exp == Exp::Skip {
                    continue; // huge announced length on an allocating reader: not run
                }
                ensure!(matches!(exp, Exp::Err | Exp::ErrHeader), "harness model: proper prefix expected to give {:?}", exp);
                if let Err(mut f) = read_and_judge(rd, k, s, &c.chunks, "truncated").map(|_| ()) {
                    f.msg = format!("PDU {} {:?} cut after {} of {} octets: {}", i, c.pdus[i].kind_label(), cut, bytes.len(), f.msg);
                    return Err(f);
                }
                evals += 1;
            }
        }
    }
    obs.evals(evals);
    obs.nontrivial_if(body);
    obs.label_if(body, "body-truncation");
    Ok(())
}

//------------ corrupt ----------------------------------------------------------

#[derive(Clone, Debug, PartialEq, Eq, Serialize, Deserialize)]
pub enum Field {
    Type(u8),
    Version(u8),
    LenAbs(u32),
    LenPlus(u32),
    LenMinus(u32),
}

#[derive(Clone, Debug, Serialize, Deserialize)]
pub struct CorruptCase {
    pub pdus: Vec<PduSpec>,
    pub chunks: Vec<u8>,
    /// which PDU (monotone index mapping)
    pub target: u16,
    pub field: Field,
}

fn field_s() -> BoxedStrategy<Field> {
    prop_oneof![
        3 => prop_oneof![3 => 0u8..=12, 1 => any::<u8>()].prop_map(Field::Type),
        2 => prop_oneof![3 => 0u8..=3, 1 => any::<u8>()].prop_map(Field::Version),
        2 => prop_oneof![
            4 => prop::sample::select(vec![0u32, 1, 7, 8, 9, 11, 12, 13, 16, 20, 24, 28, 31, 32, 33, 36, 0xFFFF, 0x1_0000, 0x8000_0000, u32::MAX - 1, u32::MAX]),
            1 => dense_u32(),
        ].prop_map(Field::LenAbs),
        2 => (1u32..=64).prop_map(Field::LenPlus),
        2 => (1u32..=64).prop_map(Field::LenMinus),
    ]
    .boxed()
}

/// Keeps announced lengths small on the PDU types whose readers allocate
/// the announced length before reading.
fn cap_len_field(kind_allocates: bool, f: Field) -> Field {
    match f {
        Field::LenAbs(v) if kind_allocates && v > ALLOC_CAP => Field::LenAbs([0x1_0000, 0xFFFF, ALLOC_CAP][(v % 3) as usize]),
        f => f,
    }
}

fn corrupt_strategy(_: Tier) -> BoxedStrategy<CorruptCase> {
    (prop::collection::vec(pdu_s(1), 1..=4), chunks_s(), any::<u16>(), field_s())
        .prop_map(|(pdus, chunks, target, field)| {
            let t = &pdus[pick_idx(target, pdus.len())];
            let field = cap_len_field(matches!(t, PduSpec::RouterKey { .. } | PduSpec::Aspa { .. }), field);
            CorruptCase { pdus, chunks, target, field }
        })
        .boxed()
}

/// Applies the mutation to the header at the start of `s`; false if nothing changed.
fn apply_field(s: &mut [u8], f: &Field) -> bool {
    let old = [s[0], s[1], s[4], s[5], s[6], s[7]];
    let len = u32::from_be_bytes([s[4], s[5], s[6], s[7]]);
    match f {
        Field::Type(t) => s[1] = *t,
        Field::Version(v) => s[0] = *v,
        Field::LenAbs(v) => s[4..8].copy_from_slice(&v.to_be_bytes()),
        Field::LenPlus(k) => s[4..8].copy_from_slice(&len.saturating_add(*k).to_be_bytes()),
        Field::LenMinus(k) => s[4..8].copy_from_slice(&len.saturating_sub(*k).to_be_bytes()),
    }
    old != [s[0], s[1], s[4], s[5], s[6], s[7]]
}

fn run_corrupt(c: &CorruptCase, obs: &mut Obs) -> CheckResult {
    let enc = encode_all(&c.pdus)?;
    let ti = pick_idx(c.target, enc.len());
    let k = enc[ti].0.kind();
    obs.label(c.pdus[ti].kind_label());
    // the stream as the reader meets it: the target PDU and everything after
    let mut s = Vec::new();
    for (_, b) in &enc[ti..] {
        s.extend_from_slice(b);
    }
    let changed = apply_field(&mut s, &c.field);
    obs.label(match c.field {
        Field::Type(_) => "f:type",
        Field::Version(_) => "f:version",
        _ => "f:length",
    });
    obs.label_if(!changed, "unchanged");
    obs.nontrivial_if(changed);
    let mut evals = 0u64;
    for &rd in readers_for(k) {
        let exp = model(rd, k, &s);
        label_once(obs, match exp {
            Exp::Err => "exp:err",
            Exp::Ok(_) => "exp:ok",
            Exp::Either(_) => "exp:ok-or-err",
            Exp::ErrHeader => "exp:err-header",
            Exp::Unknown => "exp:unknown-type",
            Exp::Skip => "exp:not-run-alloc",
        });
        // The stated clause: a *wrong* type or length ends in an error. Make
        // sure the model never lets a changed type/length of a fixed-size PDU
        // through for the readers that know what they expect.
        if changed && matches!(rd, Rd::Read | Rd::TryRead) && !matches!(k, Kind::RouterKey | Kind::Aspa | Kind::Error) {
            let by_version_only = matches!(c.field, Field::Version(_));
            ensure!(
                by_version_only || matches!(exp, Exp::Err | Exp::ErrHeader),
                "harness model: {:?} lets a corrupted fixed-size PDU through: {:?}", rd, exp
            );
        }
        if let Err(mut f) = read_and_judge(rd, k, &s, &c.chunks, "corrupted").map(|_| ()) {
            f.msg = format!("{:?} applied to PDU {} ({}): {}", c.field, ti, c.pdus[ti].kind_label(), f.msg);
            return Err(f);
        }
        evals += 1;
    }
    obs.evals(evals.saturating_sub(1));
    Ok(())
}

//------------ header-enum ------------------------------------------------------

fn canon() -> Vec<PduSpec> {
    let blob = |len| Blob { len, start: 0x40, step: 1 };
    vec![
        PduSpec::SerialNotify { version: 1, session: 0x1234, serial: 0xdead_beef },
        PduSpec::SerialQuery { version: 1, session: 0x1234, serial: 7 },
        PduSpec::ResetQuery { version: 2 },
        PduSpec::CacheResponse { version: 2, session: 4 },
        PduSpec::V4 { version: 1, flags: 1, len: 24, max_len: 26, addr: 0xC000_0200, asn: 64496 },
        PduSpec::V6 { version: 1, flags: 0, len: 32, max_len: 48, addr: U128(0x2001_0db8 << 96), asn: 64497 },
        PduSpec::Eod { version: 0, session: 9, serial: 1, refresh: 0, retry: 0, expire: 0 },
        PduSpec::Eod { version: 1, session: 9, serial: 1, refresh: 3600, retry: 600, expire: 7200 },
        PduSpec::Eod { version: 2, session: 9, serial: u32::MAX, refresh: 1, retry: 2, expire: 3 },
        PduSpec::CacheReset { version: 1 },
        PduSpec::RouterKey { version: 1, flags: 1, ski: (1, 1), asn: 64498, info: blob(0) },
        PduSpec::RouterKey { version: 2, flags: 1, ski: (1, 1), asn: 64498, info: blob(91) },
        PduSpec::Error { version: 1, code: 4, pdu: blob(0), text: blob(0) },
        PduSpec::Error { version: 0, code: 2, pdu: blob(12), text: blob(21) },
        PduSpec::Aspa { version: 2, flags: 1, customer: 64499, provs: Provs { count: 0, base: 0, step: 0 } },
        PduSpec::Aspa { version: 2, flags: 1, customer: 64499, provs: Provs { count: 2, base: 64500, step: 1 } },
        PduSpec::Aspa { version: 2, flags: 0, customer: 64499, provs: Provs { count: 5, base: 64500, step: 1 } },
    ]
}

const ENUM_LENS: &[u32] = &[
    0, 1, 2, 3, 4, 5, 6, 7, 8, 9, 10, 11, 12, 13, 14, 15, 16, 17, 18, 19, 20, 21, 22, 23, 24, 25, 26, 27, 28, 29, 30, 31, 32, 33, 34, 35, 36,
    37, 38, 39, 40, 44, 48, 52, 56, 60, 64, 100, 122, 123, 124, 125, 127, 128, 255, 256, 257, 1023, 1024, 1025, 1032, 1033, 2048, 0xFFFF,
    0x1_0000, 0x1_0001, 0x10_0000, 0x100_0000, 0x7FFF_FFFF, 0x8000_0000, 0x8000_0008, 0xFFFF_FFF0, 0xFFFF_FFFE, 0xFFFF_FFFF,
];

fn enum_per_pdu() -> u64 {
    256 + 256 + ENUM_LENS.len() as u64
}

fn count_enum(_: Tier, _: u64) -> u64 {
    canon().len() as u64 * enum_per_pdu() * 2
}

fn make_enum(_: Tier, _: u64, idx: u64) -> CorruptCase {
    let c = canon();
    let per = enum_per_pdu();
    let with_tail = idx % 2 == 1;
    let idx = idx / 2;
    let spec = c[(idx / per) as usize].clone();
    let j = idx % per;
    let field = if j < 256 {
        Field::Type(j as u8)
    } else if j < 512 {
        Field::Version((j - 256) as u8)
    } else {
        Field::LenAbs(ENUM_LENS[(j - 512) as usize])
    };
    let field = cap_len_field(matches!(spec, PduSpec::RouterKey { .. } | PduSpec::Aspa { .. }), field);
    // with a tail there is something to over-read; without, the stream ends
    let pdus = if with_tail {
        vec![spec, PduSpec::Error { version: 1, code: 0, pdu: Blob { len: 40, start: 9, step: 3 }, text: Blob { len: 1100, start: 0, step: 7 } }]
    } else {
        vec![spec]
    };
    CorruptCase { pdus, chunks: vec![[0u8, 1, 3, 7][(idx % 4) as usize]], target: 0, field }
}

//------------ payload ----------------------------------------------------------

#[derive(Clone, Debug, PartialEq, Eq, Serialize, Deserialize)]
pub enum ItemSpec {
    /// valid by construction of the generator: len <= family, host bits zero, len <= max_len <= family
    Origin { v6: bool, addr: U128, len: u8, max_len: Option<u8>, asn: u32 },
    RouterKey { ski: (u8, u8), asn: u32, info: Blob },
    Aspa { customer: u32, provs: Provs },
}

#[derive(Clone, Debug, Serialize, Deserialize)]
pub struct PayCase {
    pub version: u8,
    pub flags: u8,
    pub item: ItemSpec,
    pub chunks: Vec<u8>,
}

fn item_s(big: u32) -> BoxedStrategy<ItemSpec> {
    prop_oneof![
        (any::<bool>(), dense_u128(), any::<u8>(), prop::option::weighted(0.7, any::<u8>()), dense_u32()).prop_map(
            |(v6, addr, len, ml, asn)| {
                let fam: u8 = if v6 { 128 } else { 32 };
                let len = len % (fam + 1);
                let addr = if v6 { addr } else { (addr >> 96) ^ (addr & 0xFFFF_FFFF) };
                let host = (if v6 { 128 } else { 32 } - len) as u32;
                let addr = if host >= 128 { 0 } else { addr & !((1u128 << host) - 1) };
                let max_len = ml.map(|m| len + m % (fam - len + 1));
                ItemSpec::Origin { v6, addr: U128(addr), len, max_len, asn }
            }
        ),
        (any::<(u8, u8)>(), dense_u32(), blob_s(4096, big)).prop_map(|(ski, asn, info)| ItemSpec::RouterKey { ski, asn, info }),
        (dense_u32(), provs_s(300, big)).prop_map(|(customer, provs)| ItemSpec::Aspa { customer, provs }),
    ]
    .boxed()
}

fn pay_strategy(_: Tier) -> BoxedStrategy<PayCase> {
    (version_s(), flags_s(), item_s(2), chunks_s()).prop_map(|(version, flags, item, chunks)| PayCase { version, flags, item, chunks }).boxed()
}

fn build_item(i: &ItemSpec) -> Result<pl::Payload, Fail> {
    Ok(match i {
        ItemSpec::Origin { v6, addr, len, max_len, asn } => {
            let p = if *v6 {
                Prefix::new_v6(Ipv6Addr::from(addr.0), *len)
            } else {
                Prefix::new_v4(Ipv4Addr::from(addr.0 as u32), *len)
            }
            .map_err(|e| Fail::new(format!("case outside the domain (invalid prefix {:?}): {}", i, e)))?;
            let m = MaxLenPrefix::new(p, *max_len).map_err(|e| Fail::new(format!("case outside the domain (max-len {:?}): {}", i, e)))?;
            pl::Payload::origin(m, Asn::from_u32(*asn))
        }
        ItemSpec::RouterKey { ski, asn, info } => {
            pl::Payload::router_key(KeyIdentifier::from(ski_bytes(*ski)), Asn::from_u32(*asn), key_info(info)?)
        }
        ItemSpec::Aspa { customer, provs } => pl::Payload::aspa(Asn::from_u32(*customer), provider_asns(&provs.asns())?),
    })
}

/// "Yields the same item": equal, and interchangeable wherever a receiver keeps items - the
/// same hash (a withdrawal must find the announced entry in a hash set), `cmp` Equal (a
/// sorted set), not unequal.
fn same_item(got: &pl::Payload, exp: &pl::Payload) -> Result<(), String> {
    use std::hash::{Hash, Hasher};
    if got != exp || !(got == exp) {
        return Err(format!("item {:?}, expected {:?}", got, exp));
    }
    let h = |p: &pl::Payload| {
        let mut h = std::collections::hash_map::DefaultHasher::new();
        p.hash(&mut h);
        h.finish()
    };
    if h(got) != h(exp) {
        return Err(format!("item {:?} equals the expected {:?} but hashes differently", got, exp));
    }
    if got.cmp(exp) != std::cmp::Ordering::Equal || got.partial_cmp(exp) != Some(std::cmp::Ordering::Equal) {
        return Err(format!("item {:?} equals the expected {:?} but does not compare Equal", got, exp));
    }
    // the item's own accessors and conversions tell the same story
    let (o, k, a) = (got.to_origin(), got.as_router_key(), got.as_aspa());
    let consistent = match got {
        pl::Payload::Origin(x) => {
            o == Some(*x) && k.is_none() && a.is_none() && got.payload_type() == pl::PayloadType::Origin
                && pl::Payload::from(*x) == *got && x.is_v4() == x.prefix.prefix().is_v4()
                && pl::Payload::origin(x.prefix, x.asn) == *got && pl::RouteOrigin::new(x.prefix, x.asn) == *x
        }
        pl::Payload::RouterKey(x) => {
            o.is_none() && k == Some(x) && a.is_none() && got.payload_type() == pl::PayloadType::RouterKey
                && pl::Payload::from(x.clone()) == *got
                && pl::Payload::router_key(x.key_identifier, x.asn, x.key_info.clone()) == *got
        }
        pl::Payload::Aspa(x) => {
            o.is_none() && k.is_none() && a == Some(x) && got.payload_type() == pl::PayloadType::Aspa
                && pl::Payload::from(x.clone()) == *got && x.key() == x.customer
                && pl::Payload::aspa(x.customer, x.providers.clone()) == *got
        }
    };
    if !consistent {
        return Err(format!("accessors / conversions of {:?} disagree with the item: to_origin {:?}, as_router_key {:?}, as_aspa {:?}, type {:?}", got, o, k, a, got.payload_type()));
    }
    Ok(())
}

/// The item a receiver must end up with.
fn expected_item(item: &pl::Payload, flags: u8) -> pl::Payload {
    match item {
        pl::Payload::Aspa(a) if flags & 1 == 0 => pl::Payload::Aspa(a.withdraw()),
        other => other.clone(),
    }
}

fn run_payload(c: &PayCase, obs: &mut Obs) -> CheckResult {
    let item = build_item(&c.item)?;
    let (label, min_version) = match c.item {
        ItemSpec::Origin { v6: false, .. } => ("k:ipv4", 0),
        ItemSpec::Origin { .. } => ("k:ipv6", 0),
        ItemSpec::RouterKey { .. } => ("k:router-key", 1),
        ItemSpec::Aspa { .. } => ("k:aspa", 2),
    };
    obs.label(label);
    obs.label(if c.flags & 1 == 1 { "announce" } else { "withdraw" });
    obs.nontrivial_if(min_version > 0);
    let p = pdu::Payload::new(c.version, c.flags, item.as_ref());
    ensure!(p.version() == c.version && p.flags() == c.flags, "Payload::new: version {} flags {} for {:?}", p.version(), p.flags(), c);
    let sup = pdu::Payload::new_if_supported(c.version, c.flags, item.as_ref());
    ensure!(sup.is_some() == (c.version >= min_version), "new_if_supported(version {}) of {:?}: {:?}", c.version, c.item, sup.is_some());
    if let Some(s) = &sup {
        ensure!(s == &p, "new_if_supported differs from new for {:?}", c);
    }
    let mut bytes = Vec::new();
    drive("Payload::write", p.write(&mut bytes))?.map_err(|e| Fail::new(format!("write: {}", e)))?;
    let Some((ver, _, len)) = header_of(&bytes) else { return Err(Fail::new("fewer than 8 octets written")) };
    ensure!(len as usize == bytes.len(), "length field {} but {} octets written for {:?}", len, bytes.len(), c);
    {
        let mut w = MemWriter::new(&c.chunks);
        drive("Payload::write (short writes)", p.write(&mut w))?.map_err(|e| Fail::new(format!("write: {}", e)))?;
        ensure_sig!(w.out == bytes, "write-depends-on-writer",
            "Payload::write: {} octets arrive at a writer taking short writes {:?}, {} at a Vec, for {:?}", w.out.len(), c.chunks, bytes.len(), c);
    }
    ensure!(ver == c.version, "version octet {} for {:?}", ver, c);
    let mut r = MemReader::new(&bytes, &c.chunks);
    let back = match drive("Payload::read", pdu::Payload::read(&mut r))? {
        Ok(Ok(Some(b))) => b,
        // a version octet above 2 may already be refused here (see Exp::Either)
        Err(_) if c.version > 2 => {
            ensure!(r.served() <= bytes.len().max(8), "Payload::read failed after consuming {} of {} octets", r.served(), bytes.len());
            obs.label("high-version-refused");
            return Ok(());
        }
        other => return Err(Fail::new(format!("Payload::read of a written payload PDU gave {:?} for {:?}", other, c))),
    };
    ensure!(r.served() == bytes.len(), "Payload::read consumed {} of {} octets", r.served(), bytes.len());
    ensure!(back == p, "Payload::read gave {:?}, written {:?}", back, p);
    ensure!(back.version() == c.version && back.flags() == c.flags, "read back version {} flags {} for {:?}", back.version(), back.flags(), c);
    let (action, got) = no_panic("to_payload", || back.to_payload())?
        .map_err(|_| Fail::new(format!("to_payload rejected the PDU made from valid item {:?}", c.item)))?;
    let exp_action = if c.flags & 1 == 1 { pl::Action::Announce } else { pl::Action::Withdraw };
    ensure!(action == exp_action, "action {:?} after the wire, flags were {}", action, c.flags);
    if c.flags <= 1 {
        ensure!(pl::Action::from_flags(c.flags) == exp_action && exp_action.into_flags() == c.flags, "Action <-> flags for {}", c.flags);
    }
    ensure!(action.is_announce() == (c.flags & 1 == 1) && action.is_withdraw() == (c.flags & 1 == 0) && pl::Action::from_flags(action.into_flags()) == action,
        "Action accessors for flags {}: {:?}", c.flags, action);
    let exp = expected_item(&item, c.flags);
    ensure!(got == exp, "item after the wire {:?}, expected {:?}", got, exp);
    if let Err(e) = same_item(&got, &exp) {
        return Err(Fail::sig("c07:item-not-interchangeable", format!("after the wire: {}", e)));
    }
    if let pl::Payload::Origin(o) = &exp {
        obs.label_if(o.prefix.max_len().is_none(), "origin-implicit-max-len");
    }
    if let (pl::Payload::Origin(a), pl::Payload::Origin(b)) = (&got, &exp) {
        ensure!(
            a.prefix.prefix() == b.prefix.prefix() && a.prefix.resolved_max_len() == b.prefix.resolved_max_len() && a.asn == b.asn,
            "origin fields after the wire {:?}, expected {:?}", a, b
        );
    }
    Ok(())
}

//------------ client -----------------------------------------------------------

#[derive(Clone, Debug, PartialEq, Eq, Serialize, Deserialize)]
pub enum Fault {
    None,
    /// every proper prefix of the reply stream
    Truncate,
    Corrupt { target: u16, field: Field },
}

#[derive(Clone, Debug, Serialize, Deserialize)]
pub struct ClientCase {
    /// Some: the client starts with this state and sends a serial query
    pub serial_mode: Option<(u16, u32)>,
    /// Some(v), v < 2: the server first answers "unsupported protocol version" naming v
    pub downgrade: Option<u8>,
    pub err_pdu: Blob,
    pub err_text: Blob,
    /// serial mode only: a cache reset precedes the response
    pub reset_first: bool,
    /// 0..=2 (replaced by `downgrade` if that is set)
    pub version: u8,
    pub session: u16,
    pub items: Vec<(u8, ItemSpec)>,
    pub eod: (u32, u32, u32, u32),
    pub fault: Fault,
    pub chunks: Vec<u8>,
}

fn client_strategy(_: Tier) -> BoxedStrategy<ClientCase> {
    let small_blob = || blob_s(200, 1);
    (
        (prop::option::weighted(0.5, (any::<u16>(), dense_u32())), prop::option::weighted(0.35, 0u8..=1), small_blob(), small_blob()),
        (any::<bool>(), 0u8..=2, any::<u16>()),
        prop::collection::vec((prop_oneof![4 => 0u8..=1, 1 => any::<u8>()], item_s(0)), 0..5),
        (dense_u32(), dense_u32(), dense_u32(), dense_u32()),
        prop_oneof![
            2 => Just(Fault::None),
            3 => Just(Fault::Truncate),
            5 => (any::<u16>(), field_s()).prop_map(|(target, field)| Fault::Corrupt { target, field }),
        ],
        chunks_s(),
    )
        .prop_map(|((serial_mode, downgrade, err_pdu, err_text), (reset_first, version, session), items, eod, fault, chunks)| {
            let version = downgrade.unwrap_or(version);
            let reset_first = reset_first && serial_mode.is_some();
            // lengths on variable-length PDUs stay small (see ALLOC_CAP)
            let fault = match fault {
                Fault::Corrupt { target, field } => Fault::Corrupt { target, field: cap_len_field(true, field) },
                f => f,
            };
            ClientCase { serial_mode, downgrade, err_pdu, err_text, reset_first, version, session, items, eod, fault, chunks }
        })
        .boxed()
}

#[derive(Clone, Copy, Debug, PartialEq, Eq)]
enum Role {
    VersionError,
    Reset,
    Response,
    Payload,
    Eod,
}

#[derive(Default)]
struct Target {
    starts: Vec<bool>,
}

impl PayloadTarget for Target {
    type Update = Vec<(pl::Action, pl::Payload)>;
    fn start(&mut self, reset: bool) -> Self::Update {
        self.starts.push(reset);
        Vec::new()
    }
    fn apply(&mut self, _update: Self::Update, _timing: pl::Timing) -> Result<(), PayloadError> {
        Ok(())
    }
}

thread_local! {
    // `rtr::Client` wraps its first read in `tokio::time::timeout`, which
    // needs a runtime with a (paused, virtual) clock.
    static RT: tokio::runtime::Runtime = tokio::runtime::Builder::new_current_thread()
        .enable_time()
        .start_paused(true)
        .build()
        .expect("tokio runtime");
}

struct ClientRun {
    result: Result<Vec<(pl::Action, pl::Payload)>, io::Error>,
    polls: u32,
    eof_polls: u32,
    aborted: bool,
    served: usize,
    starts: Vec<bool>,
    state: Option<(u16, u32)>,
}

fn client_update(stream: &[u8], chunks: &[u8], state: Option<(u16, u32)>) -> ClientRun {
    let (sock, stats) = MemSock::new(stream.to_vec(), chunks.to_vec());
    let mut client = Client::new(sock, Target::default(), state.map(|(s, n)| State::from_parts(s, Serial(n))));
    let mut polls = 0u32;
    let result = RT.with(|rt| {
        rt.block_on(async {
            let mut fut = std::pin::pin!(client.update());
            std::future::poll_fn(|cx| {
                polls += 1;
                fut.as_mut().poll(cx)
            })
            .await
        })
    });
    ClientRun {
        result,
        polls,
        eof_polls: stats.eof_polls.get(),
        aborted: stats.aborted.get(),
        served: stats.served.get(),
        starts: client.target().starts.clone(),
        state: client.state().map(|s| (s.session(), s.serial().0)),
    }
}

/// Deterministic liveness judgement of one client run.
fn judge_liveness(run: &ClientRun, what: &str) -> CheckResult {
    ensure_sig!(
        !run.aborted && run.eof_polls <= EOF_POLL_LIMIT,
        "eof-spin:client",
        "{}: client polled its closed socket {} times{} (limit {}): spins on a closed stream; result {:?}",
        what, run.eof_polls, if run.aborted { " and had to be aborted" } else { "" }, EOF_POLL_LIMIT,
        run.result.as_ref().map(|v| v.len()).map_err(|e| e.to_string())
    );
    let timed_out = matches!(&run.result, Err(e) if e.kind() == io::ErrorKind::TimedOut);
    ensure!(
        run.polls == 1 && !timed_out,
        "{}: Client::update() needed {} polls{} although its socket is always ready", what, run.polls,
        if timed_out { " and ended by its (virtual-time) timeout" } else { "" }
    );
    Ok(())
}

fn run_client(c: &ClientCase, obs: &mut Obs) -> CheckResult {
    if c.downgrade.is_some_and(|d| d >= 2) || c.version > 2 {
        return Err(Fail::new("case outside the domain: stream version must be 0..=2, downgrade target 0..=1"));
    }
    let version = c.downgrade.unwrap_or(c.version);
    let reset_first = c.reset_first && c.serial_mode.is_some();
    // the reply stream, written by the library
    let mut parts: Vec<(Role, Vec<u8>)> = Vec::new();
    if let Some(d) = c.downgrade {
        let e = pdu::Error::new(d, pdu::ErrorCode::UNSUPPORTED_PROTOCOL_VERSION.0, c.err_pdu.bytes(), c.err_text.bytes());
        parts.push((Role::VersionError, Lib::Error(e).write()?));
    }
    if reset_first {
        parts.push((Role::Reset, Lib::CacheReset(pdu::CacheReset::new(version)).write()?));
    }
    let state = State::from_parts(c.session, Serial(c.eod.0));
    parts.push((Role::Response, Lib::CacheResponse(pdu::CacheResponse::new(version, state)).write()?));
    let mut expected = Vec::new();
    for (flags, spec) in &c.items {
        let item = build_item(spec)?;
        let p = pdu::Payload::new(version, *flags, item.as_ref());
        let mut b = Vec::new();
        drive("Payload::write", p.write(&mut b))?.map_err(|e| Fail::new(format!("write: {}", e)))?;
        parts.push((Role::Payload, b));
        expected.push((if flags & 1 == 1 { pl::Action::Announce } else { pl::Action::Withdraw }, expected_item(&item, *flags)));
    }
    let timing = pl::Timing { refresh: c.eod.1, retry: c.eod.2, expire: c.eod.3 };
    parts.push((Role::Eod, eod_to_lib(pdu::EndOfData::new(version, state, timing)).write()?));
    let stream: Vec<u8> = parts.iter().flat_map(|(_, b)| b.iter().copied()).collect();
    obs.label(if c.serial_mode.is_some() { "serial-query" } else { "reset-query" });
    obs.label_if(c.downgrade.is_some(), "downgrade");
    obs.label_if(reset_first, "cache-reset-first");

    let withdrawal_in_reset = (c.serial_mode.is_none() || reset_first) && c.items.iter().any(|(flags, _)| flags & 1 == 0);
    obs.label_if(withdrawal_in_reset, "withdrawal-in-reset-reply");
    let check_intact = |run: &ClientRun, what: &str| -> CheckResult {
        judge_liveness(run, what)?;
        match &run.result {
            Ok(list) => {
                ensure!(list == &expected, "{}: update holds {:?}, the stream carried {:?}", what, list, expected);
            }
            // a reply to a reset query lists what the cache has: a withdrawal in it is the cache's
            // protocol error (RFC 8210 section 5.6 / error code 6), the client may take it or refuse it
            Err(_) if withdrawal_in_reset => return Ok(()),
            Err(e) => return Err(Fail::new(format!("{}: Client::update() failed on a well-formed reply stream: {}", what, e))),
        }
        ensure!(run.starts == vec![c.serial_mode.is_none() || reset_first], "{}: target.start calls {:?}", what, run.starts);
        ensure!(run.state == Some((c.session, c.eod.0)), "{}: client state {:?}, end of data said {:?}", what, run.state, (c.session, c.eod.0));
        ensure!(run.served == stream.len(), "{}: client consumed {} of {} octets", what, run.served, stream.len());
        Ok(())
    };

    match &c.fault {
        Fault::None => {
            obs.label("fault:none");
            obs.nontrivial_if(c.items.iter().any(|(_, i)| !matches!(i, ItemSpec::Origin { .. })) || c.downgrade.is_some());
            check_intact(&client_update(&stream, &c.chunks, c.serial_mode), "intact stream")?;
        }
        Fault::Truncate => {
            obs.label("fault:truncate");
            obs.nontrivial();
            for cut in 0..stream.len() {
                let run = client_update(&stream[..cut], &c.chunks, c.serial_mode);
                let what = format!("reply stream cut after {} of {} octets", cut, stream.len());
                judge_liveness(&run, &what)?;
                ensure!(run.result.is_err(), "{}: Client::update() returned Ok", what);
            }
            obs.evals(stream.len().saturating_sub(1) as u64);
        }
        Fault::Corrupt { target, field } => {
            obs.label("fault:corrupt");
            let ti = pick_idx(*target, parts.len());
            let role = parts[ti].0;
            let off: usize = parts[..ti].iter().map(|(_, b)| b.len()).sum();
            let mut s = stream.clone();
            let (ver, t, len) = header_of(&s[off..]).ok_or_else(|| Fail::new("short PDU"))?;
            let changed = apply_field(&mut s[off..], field);
            let (nver, nt, nlen) = header_of(&s[off..]).unwrap();
            if matches!(nt, T_KEY | T_ASPA) && nlen > ALLOC_CAP {
                obs.label("not-run-alloc");
                return Ok(());
            }
            let run = client_update(&s, &c.chunks, c.serial_mode);
            let what = format!("{:?} on PDU {} ({:?}, header {:?} -> {:?})", field, ti, role, (ver, t, len), (nver, nt, nlen));
            if !changed {
                obs.label("unchanged");
                return check_intact(&run, &what);
            }
            obs.nontrivial();
            judge_liveness(&run, &what)?;
            let first_reply = matches!(role, Role::VersionError | Role::Reset | Role::Response);
            let must_err = match field {
                // a first reply of another type is never what the client asked for;
                // later a type passes only if the payload reader's length rule takes it
                Field::Type(_) => first_reply || len_rule(nt, nver, nlen, EodRule::ByVersion) != Some(true)
                    || !matches!(nt, T_V4 | T_V6 | T_KEY | T_ASPA | T_EOD),
                // the version of a cache reset is not looked at
                Field::Version(_) => role != Role::Reset,
                _ => matches!(t, T_RESPONSE | T_RESET | T_V4 | T_V6 | T_EOD),
            };
            obs.label(if must_err { "must-err" } else { "outcome-open" });
            if must_err {
                ensure!(
                    run.result.is_err(),
                    "{}: Client::update() returned Ok({} items) although the header is wrong", what, run.result.as_ref().map(|v| v.len()).unwrap_or(0)
                );
            }
        }
    }
    Ok(())
}

//============ sub-check: foreign ================================================
//
// PDUs written octet by octet by the harness, as a foreign cache or router would put
// them on the wire: well-formed (type, length rule, version 2) but not producible
// through the library's constructors — in particular ASPA PDUs with more providers
// than `ProviderAsns::try_from_iter` admits (16380): the length field has 32 bits and
// the provider count is not limited by the wire format. A reader may refuse such a PDU
// (error within the byte bound) or return it; if it returns it, it has consumed exactly
// the announced length, the value carries exactly the providers on the wire, and the
// next PDU of the stream is read intact.

#[derive(Clone, Debug, Serialize, Deserialize)]
pub struct ForeignCase {
    pub flags: u8,
    pub customer: u32,
    pub count: u32,
    pub seed: u32,
    pub chunks: Vec<u8>,
    /// octet 3 of the header (reserved, zero on the wire today)
    pub reserved: u8,
}

const FOREIGN_COUNTS: [u32; 22] = [
    0, 1, 2, 16_379, 16_380, 16_381, 16_382, 16_383, 16_384, 20_000, 32_767, 32_768, 65_534, 65_535, 65_536, 65_537, 65_539, 70_000,
    131_071, 131_072, 131_073, 200_000,
];

fn foreign_strategy(_: Tier) -> BoxedStrategy<ForeignCase> {
    (
        prop_oneof![4 => Just(0u8), 4 => Just(1u8), 1 => any::<u8>()],
        dense_u32(),
        prop_oneof![
            6 => (0usize..FOREIGN_COUNTS.len()).prop_map(|i| FOREIGN_COUNTS[i]),
            2 => 0u32..40,
            2 => 16_000u32..17_000,
            1 => 65_000u32..66_000,
            1 => 0u32..210_000,
        ],
        any::<u32>(),
        prop_oneof![3 => Just(vec![0u8]), 2 => chunks_s(), 1 => Just(vec![255u8, 0])],
        prop_oneof![9 => Just(0u8), 1 => any::<u8>()],
    )
        .prop_map(|(flags, customer, count, seed, chunks, reserved)| ForeignCase { flags, customer, count, seed, chunks, reserved })
        .boxed()
}

fn run_foreign(c: &ForeignCase, obs: &mut Obs) -> CheckResult {
    ensure!(c.count <= 250_000, "malformed case: {} providers", c.count);
    let len = 12u32 + 4 * c.count;
    let mut stream = vec![2u8, T_ASPA, c.flags, c.reserved];
    stream.extend_from_slice(&len.to_be_bytes());
    stream.extend_from_slice(&c.customer.to_be_bytes());
    let provs: Vec<u32> = (0..c.count).map(|i| c.seed.wrapping_add(i.wrapping_mul(2_654_435_761))).collect();
    for p in &provs {
        stream.extend_from_slice(&p.to_be_bytes());
    }
    // the PDU behind it: an IPv4 prefix, announce, 192.0.2.0/24-24 AS 64496
    let tail: [u8; 20] = [2, T_V4, 0, 0, 0, 0, 0, 20, 1, 24, 24, 0, 192, 0, 2, 0, 0, 0, 0xFB, 0xF0];
    stream.extend_from_slice(&tail);
    obs.label(match c.count {
        0..=16_380 => "providers<=16380",
        16_381..=65_535 => "providers-16381..65535",
        _ => "providers>=65536",
    });
    obs.label_if(c.chunks != [0u8], "chunked-reads");
    obs.nontrivial_if(c.count > 16_380);
    for &rd in readers_for(Kind::Aspa) {
        let mut r = MemReader::new(&stream, &c.chunks);
        let got = run_reader(rd, Kind::Aspa, &mut r)?;
        let what = format!("foreign ASPA PDU with {} providers (length field {}) through {:?}", c.count, len, rd);
        ensure!(!r.aborted && r.eof_polls <= EOF_POLL_LIMIT, "{}: reader polled the exhausted stream {} times", what, r.eof_polls);
        match got {
            Got::Io(_) => {
                label_once(obs, "refused");
                ensure!(
                    r.served() <= len as usize,
                    "{}: failed after consuming {} octets, more than the announced length",
                    what, r.served()
                );
                // only what the constructors cannot build, or a non-zero reserved octet, may be refused
                ensure!(
                    c.count as usize > pdu::ProviderAsns::MAX_COUNT || c.reserved != 0 || c.flags > 1,
                    "{}: a PDU the library's own constructor produces octet for octet was refused",
                    what
                );
            }
            Got::Pdu(Lib::Aspa(p)) => {
                label_once(obs, "returned");
                ensure_sig!(
                    r.served() == len as usize,
                    "c07:foreign-aspa-framing",
                    "{}: returned a PDU after consuming {} octets; the PDU is {} octets long, the stream is out of step from here on",
                    what, r.served(), len
                );
                let got: Vec<u32> = p.providers().iter().map(|a| a.into_u32()).collect();
                ensure_sig!(
                    got == provs,
                    "c07:foreign-aspa-providers",
                    "{}: the PDU read carries {} providers, {} were on the wire (first difference at index {:?})",
                    what, got.len(), provs.len(), got.iter().zip(provs.iter()).position(|(a, b)| a != b)
                );
                ensure!(
                    p.version() == 2 && p.flags() == c.flags && p.customer() == Asn::from_u32(c.customer) && p.size() == len
                        && p.providers().len() == 4 * c.count as usize,
                    "{}: accessors of the PDU read: version {} flags {} customer {} size {} providers().len() {}",
                    what, p.version(), p.flags(), p.customer(), p.size(), p.providers().len()
                );
                // written again it is the same PDU
                let back = Lib::Aspa(p.clone()).write()?;
                ensure!(back == stream[..len as usize], "{}: the PDU read, written again, differs from the octets it was read from", what);
                // and the stream continues with the next PDU
                match run_reader(Rd::Read, Kind::V4, &mut r)? {
                    Got::Pdu(Lib::V4(v)) => {
                        let mut out = Vec::new();
                        drive("write", v.write(&mut out))?.map_err(|e| Fail::new(e.to_string()))?;
                        ensure_sig!(out == tail, "c07:foreign-aspa-framing", "{}: the PDU behind it was read as {:?}", what, v);
                    }
                    other => {
                        return Err(Fail::sig(
                            "c07:foreign-aspa-framing",
                            format!("{}: the IPv4 prefix PDU behind it could not be read: {}", what, got_name(&other)),
                        ))
                    }
                }
            }
            other => return Err(Fail::new(format!("{}: unexpected outcome {}", what, got_name(&other)))),
        }
    }
    // The same PDU inside a foreign cache's reply to a reset query, taken by the library's
    // client: cache response, the ASPA, the IPv4 prefix, end of data. The update either
    // fails (the client may refuse what the constructors cannot build) or holds exactly
    // what the cache sent.
    if c.flags <= 1 && c.reserved == 0 {
        let mut reply: Vec<u8> = vec![2, T_RESPONSE, 0x12, 0x34, 0, 0, 0, 8];
        reply.extend_from_slice(&stream);
        reply.extend_from_slice(&[2, T_EOD, 0x12, 0x34, 0, 0, 0, 24, 0, 0, 0, 7, 0, 0, 0x0e, 0x10, 0, 0, 0x02, 0x58, 0, 0, 0x1c, 0x20]);
        let run = client_update(&reply, &c.chunks, None);
        let what = format!("client update from a foreign cache whose reply carries an ASPA with {} providers", c.count);
        judge_liveness(&run, &what)?;
        match &run.result {
            Err(_) => {
                label_once(obs, "client-refused");
                // (a withdrawal inside a reply to a reset query is the cache's protocol error:
                // the client may refuse it)
                ensure!(
                    c.count as usize > pdu::ProviderAsns::MAX_COUNT || c.flags & 1 == 0,
                    "{}: Client::update() failed on a reply the library's own server could have written", what
                );
            }
            Ok(list) => {
                label_once(obs, "client-took-it");
                let ok = list.len() == 2
                    && match &list[0] {
                        (action, pl::Payload::Aspa(a)) => {
                            let got: Vec<u32> = a.providers.iter().map(|x| x.into_u32()).collect();
                            let want: &[u32] = if c.flags == 1 { &provs } else { &[] };
                            *action == (if c.flags == 1 { pl::Action::Announce } else { pl::Action::Withdraw })
                                && a.customer == Asn::from_u32(c.customer)
                                && got == want
                        }
                        _ => false,
                    }
                    && matches!(&list[1], (pl::Action::Announce, pl::Payload::Origin(_)));
                ensure_sig!(
                    ok,
                    "c07:foreign-aspa-client",
                    "{}: the update holds {} items, first {:?} with {} providers; the cache sent the ASPA with {} providers and one origin",
                    what,
                    list.len(),
                    list.first().map(|(a, _)| a),
                    match list.first() {
                        Some((_, pl::Payload::Aspa(a))) => a.providers.iter().count(),
                        _ => 0,
                    },
                    c.count
                );
                ensure!(run.state == Some((0x1234, 7)), "{}: client state {:?}", what, run.state);
                ensure!(run.served == reply.len(), "{}: client consumed {} of {} octets", what, run.served, reply.len());
            }
        }
    }
    Ok(())
}


//------------ property ---------------------------------------------------------

const KIND_FLOORS: &[(&str, f64)] = &[
    ("k:serial-notify", 0.08),
    ("k:serial-query", 0.08),
    ("k:reset-query", 0.08),
    ("k:cache-response", 0.08),
    ("k:ipv4", 0.08),
    ("k:ipv6", 0.08),
    ("k:end-of-data", 0.08),
    ("k:cache-reset", 0.08),
    ("k:router-key", 0.08),
    ("k:error", 0.08),
    ("k:aspa", 0.08),
];

pub fn property() -> Property {
    Property {
        id: "C07",
        rule: RULE,
        assumptions: vec![
            "wire layout of the common header per RFC 8210 section 5 / draft-ietf-sidrops-8210bis: version at octet 0, type at octet 1, length big-endian at octets 4-7 (used to rewrite header fields and to read the length field)",
            "harness readers/sockets are always ready (never Pending): a future must complete in one poll; 'waits or spins forever' is judged by poll counts and polls of the exhausted reader (<= 2), never by wall-clock time",
            "an ASPA withdrawal names the customer only: to_payload of a withdrawn ASPA is expected with an empty provider list",
            "announced lengths above 1 MiB are not given to router-key / ASPA body readers, which allocate the announced length before reading (memory use is not part of C07); 2^32-1 is used on fixed-size PDU types and error PDUs only",
            "a corrupted length of a variable-length PDU that still satisfies the type's length rule cannot be detected by the reader of a single PDU: expected to succeed after exactly the announced number of octets",
            "libFuzzer target rtr_stream is a separate deliverable and not part of this module",
        ],
        subs: vec![
            PropSub { name: "roundtrip", strategy: seq_strategy, cases: |t| t.pick(900_000, 6_000_000), run: run_roundtrip, floors: KIND_FLOORS }.boxed(),
            PropSub {
                name: "payload",
                strategy: pay_strategy,
                cases: |t| t.pick(900_000, 4_000_000),
                run: run_payload,
                floors: &[("k:ipv4", 0.1), ("k:ipv6", 0.1), ("k:router-key", 0.15), ("k:aspa", 0.15), ("announce", 0.2), ("withdraw", 0.2)],
            }
            .boxed(),
            PropSub {
                name: "truncate",
                strategy: seq_strategy_small,
                cases: |t| t.pick(30_000, 200_000),
                run: run_truncate,
                floors: &[("body-truncation", 0.45), ("k:router-key", 0.08), ("k:error", 0.08), ("k:aspa", 0.08), ("k:end-of-data", 0.08)],
            }
            .boxed(),
            PropSub {
                name: "corrupt",
                strategy: corrupt_strategy,
                cases: |t| t.pick(1_200_000, 8_000_000),
                run: run_corrupt,
                floors: &[("f:type", 0.15), ("f:version", 0.1), ("f:length", 0.25), ("exp:err", 0.4), ("exp:ok", 0.05)],
            }
            .boxed(),
            EnumSub { name: "header-enum", count: count_enum, make: make_enum, run: run_corrupt, exhaustive: true }.boxed(),
            PropSub {
                name: "foreign",
                strategy: foreign_strategy,
                cases: |t| t.pick(30_000, 300_000),
                run: run_foreign,
                floors: &[("providers<=16380", 0.2), ("providers-16381..65535", 0.15), ("providers>=65536", 0.2), ("returned", 0.2), ("chunked-reads", 0.3)],
            }
            .boxed(),
            PropSub {
                name: "client",
                strategy: client_strategy,
                cases: |t| t.pick(180_000, 1_500_000),
                run: run_client,
                floors: &[("fault:none", 0.1), ("fault:truncate", 0.15), ("fault:corrupt", 0.25), ("must-err", 0.15), ("downgrade", 0.15), ("cache-reset-first", 0.1)],
            }
            .boxed(),
        ],
    }
}
