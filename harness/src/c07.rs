//! C07 — stub (not built yet).

use crate::engine::*;

pub fn property() -> Property {
    Property { id: "C07", rule: "", assumptions: vec![], subs: vec![] }
}
