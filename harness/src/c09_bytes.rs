//! C09 (b): arbitrary and XML-aware mutated bytes into every RRDP parser.

use super::{file_spec, real_limit, with_reader, Collector, DeltaCollector, FileSpec};
use crate::engine::*;
use proptest::prelude::*;
use rpki::rrdp::{Delta, NotificationFile, ProcessDelta, ProcessSnapshot, Snapshot};
use serde::{Deserialize, Serialize};

#[path = "xmlmut.rs"]
mod xmlmut;
use xmlmut::{apply, mut_strategy, Mut, Tables};

const OPENS: &[&[u8]] = &[b"<a>", b"<publish>", b"<a ", b"<!--", b"<![CDATA[", b"<a:b xmlns:a=\"c\">"];
const TABLES: Tables = Tables { dict: DICT, replace: REPLACE, opens: OPENS };

pub static TEST_DATA: [&[u8]; 6] = [
    include_bytes!("/repo/test-data/rrdp/ripe-notification.xml"),
    include_bytes!("/repo/test-data/rrdp/ripe-notification-with-gaps.xml"),
    include_bytes!("/repo/test-data/rrdp/ripe-notification-unsorted.xml"),
    include_bytes!("/repo/test-data/rrdp/lolz-notification.xml"),
    include_bytes!("/repo/test-data/rrdp/ripe-delta.xml"),
    include_bytes!("/repo/test-data/rrdp/ripe-snapshot.xml"),
];

const H0: &str = "0000000000000000000000000000000000000000000000000000000000000000";

fn templates() -> Vec<String> {
    let ns = "http://www.ripe.net/rpki/rrdp";
    let sid = "9df4b597-af9e-4dca-bdda-719cce2c4e28";
    vec![
        format!("<?xml version=\"1.0\" encoding=\"UTF-8\"?>\n<!-- c -->\n<notification xmlns=\"{ns}\" version=\"1\" session_id=\"{sid}\" serial=\"3\">\n<!-- c -->\n<snapshot uri=\"https://h/s&amp;&apos;\" hash=\"{H0}\"/>\n<delta serial=\"3\" uri=\"https://h/3\" hash=\"{H0}\"/><delta serial='2' uri='https://h/2' hash='{H0}'></delta>\n</notification>\n<!-- end -->\n"),
        format!("<r:notification xmlns:r=\"{ns}\" version=\"1\" session_id=\"{sid}\" serial=\"18446744073709551615\"><r:snapshot uri=\"https://h/s\" hash=\"{H0}\"/></r:notification>"),
        format!("<snapshot xmlns=\"{ns}\" version=\"1\" session_id=\"{sid}\" serial=\"1\">\n<publish uri=\"rsync://h/m/a\">QUJD\n RA==</publish><publish uri=\"rsync://h/m/b\"/><publish uri=\"rsync://h/m/c\"></publish><publish uri=\"rsync://h/m/d\"><!-- c -->QQ==<!-- c --></publish>\n</snapshot>"),
        format!("<delta xmlns=\"{ns}\" version=\"1\" session_id=\"{sid}\" serial=\"2\">\n<publish uri=\"rsync://h/m/a\" hash=\"{H0}\">QUJD</publish>\n<withdraw uri=\"rsync://h/m/b\" hash=\"{H0}\"/>\n<withdraw uri=\"rsync://h/m/c\" hash=\"{H0}\"></withdraw><publish uri=\"rsync://h/m/d\">\n</publish>\n</delta>"),
        format!("<!DOCTYPE d [<!ENTITY a \"b\">]><delta xmlns=\"{ns}\" version=\"1\" session_id=\"{sid}\" serial=\"2\"><publish uri=\"rsync://h/m/a\">&a;<![CDATA[QUJD]]></publish></delta>"),
        format!("\u{feff}<snapshot xmlns=\"{ns}\" version=\"1\" session_id=\"{sid}\" serial=\"0\"/>"),
    ]
}

const DICT: &[&[u8]] = &[
    b"<!--", b"-->", b"<!-- c -->", b"<![CDATA[", b"]]>", b"<?xml version=\"1.0\"?>", b"<?pi x?>",
    b"<!DOCTYPE x [<!ENTITY a \"b\">]>", b"&amp;", b"&lt;", b"&#x41;", b"&#0;", b"&#x110000;", b"&a;", b"&", b";",
    b" xmlns=\"\"", b" xmlns:a=\"b\"", b" a:b=\"c\"", b" xmlns=\"http://www.ripe.net/rpki/rrdp\"", b"\0", b"\xef\xbb\xbf",
    b"\xff\xfe", b"\xfe\xff", b"\xc3\xa9", b"\xc0\x80", b"\"", b"'", b"=", b"<", b">", b"/>", b"</", b"/", b" ", b"\n", b"\t",
    b"<publish", b"</publish>", b"<withdraw", b"</withdraw>", b"<snapshot", b"<delta", b"<notification", b"</notification>",
    b"</snapshot>", b"</delta>", b" serial=\"18446744073709551615\"", b" serial=\"18446744073709551616\"", b" serial=\"-1\"",
    b" serial=\"+1\"", b" serial=\"\"", b" version=\"2\"", b" version=\"1\"", b" version=\"256\"", b" hash=\"00\"", b" hash=\"\"",
    b" uri=\"\"", b" uri=\"https://\"", b" uri=\"rsync://h/m\"", b" uri=\"rsync://h/m/../x\"", b" uri=\"https://h/\xc3\xa9\"",
    b" session_id=\"\"", b" session_id=\"9df4b597af9e4dcabdda719cce2c4e28\"", b"====", b"QQ", b"Q", b"QUJD", b"!",
    b"<publish uri=\"rsync://h/m/x\">QUJD</publish>", b"<withdraw uri=\"rsync://h/m/x\" hash=\"0000000000000000000000000000000000000000000000000000000000000000\"/>",
    b"<delta serial=\"18446744073709551615\" uri=\"https://h/d\" hash=\"0000000000000000000000000000000000000000000000000000000000000000\"/>",
];

const REPLACE: &[(&[u8], &[u8])] = &[
    (b"\"", b"'"),
    (b"publish", b"withdraw"),
    (b"withdraw", b"publish"),
    (b"\n", b""),
    (b" ", b"\n\t "),
    (b"/>", b">"),
    (b"http://www.ripe.net/rpki/rrdp", b"http://example.com/"),
    (b"snapshot", b"delta"),
    (b"delta", b"snapshot"),
    (b"=", b" = "),
    (b"A", b"&#x41;"),
    (b"<", b"<x:"),
];

#[derive(Clone, Debug, Serialize, Deserialize)]
pub enum Base {
    Written(FileSpec),
    Test(u8),
    Template(u8),
    Raw(Vec<u8>),
}

#[derive(Clone, Debug, Serialize, Deserialize)]
pub struct BytesCase {
    pub base: Base,
    pub muts: Vec<Mut>,
    pub bufsize: u16,
    pub limit: u8,
    pub read_chunk: u8,
}

fn strategy(_: Tier) -> BoxedStrategy<BytesCase> {
    let base = prop_oneof![
        5 => file_spec().prop_map(Base::Written),
        // the big snapshot (index 5) only rarely
        3 => prop_oneof![30 => 0u8..5, 1 => Just(5u8)].prop_map(Base::Test),
        4 => (0u8..6).prop_map(Base::Template),
        1 => prop::collection::vec(any::<u8>(), 0..200).prop_map(Base::Raw),
        1 => prop::collection::vec(prop::sample::select(b"<>/=\"' aAxmlns:&;#!-[]?\n".to_vec()), 0..200).prop_map(Base::Raw),
    ];
    (
        base,
        prop_oneof![1 => Just(vec![]), 6 => prop::collection::vec(mut_strategy(), 1..4), 1 => prop::collection::vec(mut_strategy(), 4..7)],
        prop_oneof![3 => Just(0u16), 1 => 1u16..40, 1 => any::<u16>()],
        any::<u8>(),
        prop_oneof![Just(0u8), 1u8..5],
    )
        .prop_map(|(base, muts, bufsize, limit, read_chunk)| BytesCase { base, muts, bufsize, limit, read_chunk })
        .boxed()
}

pub fn build_doc(c: &BytesCase) -> Result<Vec<u8>, Fail> {
    let mut doc = match &c.base {
        Base::Written(f) => super::write_file(f)?,
        Base::Test(i) => TEST_DATA[*i as usize % TEST_DATA.len()].to_vec(),
        Base::Template(i) => {
            let t = templates();
            t[*i as usize % t.len()].clone().into_bytes()
        }
        Base::Raw(v) => v.clone(),
    };
    for m in &c.muts {
        apply(&mut doc, m, &TABLES);
    }
    Ok(doc)
}

fn rewrite<E: std::fmt::Display>(what: &str, r: Result<(), std::io::Error>, _e: Option<E>) -> Result<(), Fail> {
    r.map_err(|e| Fail::new(format!("write_xml of a parsed {} failed: {}", what, e)))
}

fn run(c: &BytesCase, obs: &mut Obs) -> CheckResult {
    let doc = build_doc(c)?;
    let mut any_ok = false;

    // notification
    let n = with_reader(&doc, c.bufsize, |r| NotificationFile::parse(r));
    let nl = with_reader(&doc, c.bufsize, |r| NotificationFile::parse_limited(r, real_limit(c.limit)));
    ensure!(n.is_ok() == nl.is_ok(), "parse and parse_limited disagree on acceptance: {} vs {}", n.is_ok(), nl.is_ok());
    if let Ok(mut v) = n {
        any_ok = true;
        obs.label("ok-notification");
        let mut out = Vec::new();
        rewrite::<String>("notification", v.write_xml(&mut out), None)?;
        let again = NotificationFile::parse(out.as_slice());
        ensure_sig!(
            matches!(&again, Ok(a) if *a == v),
            "reparse-of-parsed-value",
            "a parsed notification does not survive write_xml/parse: {:?}", again.as_ref().err().map(|e| e.to_string())
        );
        if let Ok(l) = nl {
            if v.deltas().len() > real_limit(c.limit) {
                ensure!(l.delta_status().is_err() && l.deltas().is_empty(), "parse_limited kept an oversized list");
            } else {
                ensure!(l == v, "parse_limited differs from parse below the limit");
            }
        }
        // accessors on an accepted value
        let _ = v.has_matching_origins(v.snapshot().uri());
        v.sort_deltas();
        ensure!(v.deltas().windows(2).all(|w| w[0].serial() <= w[1].serial()), "sort_deltas did not sort");
        v.reverse_sort_deltas();
        ensure!(v.deltas().windows(2).all(|w| w[0].serial() >= w[1].serial()), "reverse_sort_deltas did not sort");
    }

    // snapshot
    let s = with_reader(&doc, c.bufsize, |r| Snapshot::parse(r));
    let mut col = Collector::new(c.read_chunk);
    let sp = with_reader(&doc, c.bufsize, |r| col.process(r));
    ensure!(s.is_ok() == sp.is_ok(), "Snapshot::parse and a reading processor disagree on acceptance: {} vs {}", s.is_ok(), sp.is_ok());
    let mut skip = Collector::new(0);
    skip.skip_data = true;
    let _ = with_reader(&doc, c.bufsize, |r| skip.process(r));
    if let Ok(v) = s {
        any_ok = true;
        obs.label("ok-snapshot");
        ensure!(col.seen.len() == v.elements().len() + 1, "processor saw {} calls for {} elements", col.seen.len(), v.elements().len());
        let mut out = Vec::new();
        rewrite::<String>("snapshot", v.write_xml(&mut out), None)?;
        let again = Snapshot::parse(out.as_slice());
        ensure_sig!(
            matches!(&again, Ok(a) if *a == v),
            "reparse-of-parsed-value",
            "a parsed snapshot does not survive write_xml/parse: {:?}", again.as_ref().err().map(|e| e.to_string())
        );
    }

    // delta
    let d = with_reader(&doc, c.bufsize, |r| Delta::parse(r));
    let mut dcol = DeltaCollector(Collector::new(c.read_chunk));
    let dp = with_reader(&doc, c.bufsize, |r| dcol.process(r));
    ensure!(d.is_ok() == dp.is_ok(), "Delta::parse and a reading processor disagree on acceptance: {} vs {}", d.is_ok(), dp.is_ok());
    if let Ok(v) = d {
        any_ok = true;
        obs.label("ok-delta");
        ensure!(dcol.0.seen.len() == v.elements().len() + 1, "processor saw {} calls for {} elements", dcol.0.seen.len(), v.elements().len());
        let mut out = Vec::new();
        rewrite::<String>("delta", v.write_xml(&mut out), None)?;
        let again = Delta::parse(out.as_slice());
        ensure_sig!(
            matches!(&again, Ok(a) if *a == v),
            "reparse-of-parsed-value",
            "a parsed delta does not survive write_xml/parse: {:?}", again.as_ref().err().map(|e| e.to_string())
        );
    }
    if any_ok {
        obs.label("some-ok");
        obs.nontrivial_if(!c.muts.is_empty());
        obs.label_if(!c.muts.is_empty(), "ok-after-mutation");
    } else {
        obs.label("all-err");
        obs.nontrivial();
    }
    Ok(())
}

pub fn sub() -> Box<dyn SubCheck> {
    PropSub {
        name: "bytes",
        strategy,
        cases: |t| t.pick(150_000, 3_000_000),
        run,
        floors: &[("all-err", 0.2), ("some-ok", 0.1), ("ok-after-mutation", 0.012), ("ok-notification", 0.02), ("ok-snapshot", 0.02), ("ok-delta", 0.02)],
    }
    .boxed()
}
