//! C03 generators: block sequences with forced classes (see DESIGN C03 G).
//!
//! All randomness lives in proptest strategies; the materialised case is
//! plain data (`Vec<Blk>`).

use super::util::*;
use crate::gen::{dense_u128, dense_u32, pick_idx};
use crate::iset::{self, ISet};
use proptest::prelude::*;

pub fn fam_strategy() -> BoxedStrategy<Fam> {
    prop_oneof![3 => Just(Fam::As), 3 => Just(Fam::V4), 4 => Just(Fam::V6)].boxed()
}

/// Endpoint values in the family's value space.
pub fn value(fam: Fam) -> BoxedStrategy<u128> {
    match fam {
        Fam::V6 => prop_oneof![
            4 => dense_u128(),
            // inside ::ffff:0:0/96 (Display shows a dotted quad) and ::/96
            2 => dense_u32().prop_map(|v| 0xffff_0000_0000u128 | v as u128),
            1 => dense_u32().prop_map(|v| v as u128),
            1 => (0u128..64).prop_map(|d| 0xffff_0000_0000u128 - 32 + d),
        ]
        .boxed(),
        _ => dense_u32().prop_map(|v| v as u128).boxed(),
    }
}

/// Window bases for the "small window" mode.
pub fn bases(fam: Fam) -> Vec<u128> {
    match fam {
        Fam::V6 => vec![
            0,
            u128::MAX - 79,
            0xffff_0000_0000 - 32,
            0xffff_0000_0000,
            0xffff_ffff_ffff - 40,
            0xffff_ffff - 40,
            (1u128 << 64) - 32,
            (1u128 << 127) - 32,
            0x2001_0db8u128 << 96,
        ],
        _ => vec![
            0,
            u32::MAX as u128 - 79,
            (1 << 16) - 32,
            (1 << 24) - 32,
            (1u128 << 31) - 32,
            0x0a00_0000 - 32,
            64512,
        ],
    }
}

fn prefix_lens(fam: Fam) -> Vec<u8> {
    match fam {
        Fam::V6 => vec![0, 1, 7, 8, 9, 31, 32, 33, 48, 63, 64, 65, 95, 96, 97, 104, 120, 126, 127, 128],
        _ => vec![0, 1, 7, 8, 9, 15, 16, 17, 23, 24, 25, 30, 31, 32],
    }
}

#[derive(Clone, Debug)]
pub struct RawBlk {
    d1: u128,
    d2: u128,
    off: u8,
    w: u8,
    len: u16,
    form: u8,
}

#[derive(Clone, Debug)]
pub struct RawOp {
    kind: u8,
    i: u16,
    j: u16,
    w: u8,
    form: u8,
}

#[derive(Clone, Debug)]
pub struct Universe {
    mode: u8,
    base: u16,
}

fn raw_blk(fam: Fam) -> impl Strategy<Value = RawBlk> {
    (value(fam), value(fam), 0u8..64, prop_oneof![0u8..4, 0u8..20], any::<u16>(), any::<u8>())
        .prop_map(|(d1, d2, off, w, len, form)| RawBlk { d1, d2, off, w, len, form })
}

fn raw_op() -> impl Strategy<Value = RawOp> {
    (0u8..9, any::<u16>(), any::<u16>(), 0u8..12, any::<u8>()).prop_map(|(kind, i, j, w, form)| RawOp { kind, i, j, w, form })
}

pub fn universe() -> impl Strategy<Value = Universe> {
    (0u8..10, any::<u16>()).prop_map(|(mode, base)| Universe { mode, base })
}

#[derive(Clone, Debug)]
pub struct SeqParts {
    raws: Vec<RawBlk>,
    ops: Vec<RawOp>,
    order: u8,
}

pub fn seq_parts(fam: Fam, max_raw: usize, max_ops: usize) -> impl Strategy<Value = SeqParts> {
    (prop::collection::vec(raw_blk(fam), 0..=max_raw), prop::collection::vec(raw_op(), 0..=max_ops), 0u8..10)
        .prop_map(|(raws, ops, order)| SeqParts { raws, ops, order })
}

fn one_block(fam: Fam, u: &Universe, r: &RawBlk) -> (u128, u128) {
    let max = fam.max();
    match u.mode {
        // small window: plenty of overlap, adjacency and bridging
        0..=4 => {
            let b = bases(fam);
            let base = b[pick_idx(u.base, b.len())];
            let lo = base.saturating_add(r.off as u128).min(max);
            (lo, lo.saturating_add(r.w as u128).min(max))
        }
        // boundary-dense endpoints
        5..=7 => {
            let (lo, hi) = (r.d1.min(r.d2), r.d1.max(r.d2));
            if r.form & 0x10 != 0 {
                (lo, lo.saturating_add(r.w as u128).min(max))
            } else {
                (lo, hi)
            }
        }
        // prefix shaped
        _ => {
            let lens = prefix_lens(fam);
            let len = lens[pick_idx(r.len, lens.len())];
            match fam {
                Fam::V6 => iset::prefix_range(r.d1, len),
                _ => {
                    let (a, b) = iset::prefix_range(r.d1 as u32, len);
                    (a as u128, b as u128)
                }
            }
        }
    }
}

fn apply_op(fam: Fam, v: &mut Vec<Blk>, op: &RawOp) {
    let max = fam.max();
    if v.is_empty() {
        if op.kind == 6 {
            v.push(Blk::new(0, op.w as u128, op.form));
        }
        return;
    }
    let x = v[pick_idx(op.i, v.len())].pair();
    let y = v[pick_idx(op.j, v.len())].pair();
    let w = op.w as u128;
    let new = match op.kind {
        0 => Some(x),
        1 => x.1.checked_add(1).filter(|&l| l <= max).map(|l| (l, l.saturating_add(w).min(max))),
        2 => x.0.checked_sub(1).map(|h| (h.saturating_sub(w), h)),
        3 => {
            let span = x.1 - x.0;
            let lo = x.0 + w.min(span);
            let hi = x.1 - ((op.form % 4) as u128).min(x.1 - lo);
            Some((lo, hi))
        }
        4 => {
            // overlap both x and y
            let (a, b) = if x.0 <= y.0 { (x, y) } else { (y, x) };
            let lo = a.1 - w.min(a.1 - a.0);
            let hi = b.0 + ((op.form % 8) as u128).min(b.1 - b.0);
            Some((lo.min(hi), lo.max(hi)))
        }
        5 => Some((x.0.min(y.0), x.1.max(y.1))),
        6 => Some(if op.form & 1 == 0 { (0, w.min(max)) } else { (max - w.min(max), max) }),
        7 => {
            // exactly the gap between x and y
            let (a, b) = if x.0 <= y.0 { (x, y) } else { (y, x) };
            match (a.1.checked_add(1), b.0.checked_sub(1)) {
                (Some(l), Some(h)) if l <= h && l <= max => Some((l, h)),
                _ => None,
            }
        }
        _ => {
            // touch both: from a's end to b's start inclusive
            let (a, b) = if x.0 <= y.0 { (x, y) } else { (y, x) };
            Some((a.1.min(b.0), a.1.max(b.0)))
        }
    };
    if let Some((lo, hi)) = new {
        v.push(Blk::new(lo, hi, op.form));
    }
}

pub fn materialise(fam: Fam, u: &Universe, p: &SeqParts) -> Vec<Blk> {
    let mut v: Vec<Blk> = p
        .raws
        .iter()
        .map(|r| {
            let (lo, hi) = one_block(fam, u, r);
            Blk::new(lo, hi, r.form)
        })
        .collect();
    for op in &p.ops {
        apply_op(fam, &mut v, op);
    }
    match p.order {
        0..=4 => {}
        5 => v.sort_by_key(|b| b.pair()),
        6 => {
            v.sort_by_key(|b| b.pair());
            v.reverse();
        }
        7 | 8 => v.reverse(),
        _ => v.sort_by_key(|b| (b.hi.0, b.lo.0)),
    }
    v
}

/// One block sequence (0..=12 blocks).
pub fn seq(fam: Fam) -> BoxedStrategy<Vec<Blk>> {
    (universe(), seq_parts(fam, 8, 4)).prop_map(move |(u, p)| materialise(fam, &u, &p)).boxed()
}

//------------ related sets ------------------------------------------------------------

/// Derives a set related to `a` (equal, subset, superset, off by one at block
/// ends, ...) from per-block tweak codes.
pub fn derive(fam: Fam, a: &ISet<u128>, tweaks: &[u8], forms: u8) -> Vec<Blk> {
    let max = fam.max();
    let mut out = Vec::new();
    if tweaks.is_empty() {
        return out;
    }
    for (idx, &(lo, hi)) in a.ranges().iter().enumerate() {
        let t = tweaks[idx % tweaks.len()];
        let f = forms.wrapping_add(idx as u8);
        let mut push = |l: u128, h: u128| {
            if l <= h {
                out.push(Blk::new(l, h, f))
            }
        };
        match t {
            0..=2 => push(lo, hi),
            3 => push(lo.saturating_add(1), hi),
            4 => {
                if hi > 0 {
                    push(lo, hi - 1)
                }
            }
            5 => push(lo.saturating_sub(1), hi),
            6 => push(lo, hi.saturating_add(1).min(max)),
            7 => {}
            8 => {
                if hi - lo >= 2 {
                    let mid = lo + (hi - lo) / 2;
                    push(lo, mid - 1);
                    push(mid + 1, hi);
                } else {
                    push(lo, hi)
                }
            }
            9 => push(lo, lo),
            10 => push(hi, hi),
            _ => {
                if hi < max {
                    push(hi + 1, hi + 1)
                }
            }
        }
    }
    out
}

#[derive(Clone, Debug)]
pub struct Related {
    pub a: Vec<Blk>,
    pub b: Vec<Blk>,
    pub c: Vec<Blk>,
}

/// Three sequences over one universe: `b` and `c` are either independent or
/// derived from the canonical form of `a`.
pub fn related(fam: Fam) -> BoxedStrategy<Related> {
    (
        universe(),
        // one case in eight: a long first sequence (up to 40 raw blocks), so that holdings of
        // ten and more canonical blocks meet requests derived from them
        prop_oneof![7 => seq_parts(fam, 6, 3).boxed(), 1 => seq_parts(fam, 40, 6).boxed()],
        seq_parts(fam, 5, 2),
        seq_parts(fam, 4, 2),
        (0u8..10, prop::collection::vec(0u8..12, 1..=6), any::<u8>()),
        (0u8..10, prop::collection::vec(0u8..12, 1..=6), any::<u8>()),
    )
        .prop_map(move |(u, pa, pb, pc, (rb, tb, fb), (rc, tc, fc))| {
            let a = materialise(fam, &u, &pa);
            let am = val_model(&a);
            let rel = |r: u8, t: &[u8], f: u8, p: &SeqParts| -> Vec<Blk> {
                match r {
                    // independent
                    0..=2 => materialise(fam, &u, p),
                    // equal set, other order and forms
                    3 => {
                        let mut v: Vec<Blk> = a.iter().rev().map(|b| Blk::new(b.lo.0, b.hi.0, b.form.wrapping_add(f))).collect();
                        if f & 1 == 1 {
                            v = derive(fam, &am, &[0], f);
                        }
                        v
                    }
                    // tweaked
                    4..=7 => derive(fam, &am, t, f),
                    // tweaked plus independent extras
                    _ => {
                        let mut v = derive(fam, &am, t, f);
                        v.extend(materialise(fam, &u, p).into_iter().take(2));
                        v
                    }
                }
            };
            let b = rel(rb, &tb, fb, &pb);
            let c = rel(rc, &tc, fc, &pc);
            Related { a, b, c }
        })
        .boxed()
}
