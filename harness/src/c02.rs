//! C02 — signed objects accepted iff digest, signature, EE cert, coverage.
//!
//! Objects come from two writers: the harness' independent RFC 5652/6488
//! encoder (`der.rs`, signatures made with aws-lc-rs directly) and the
//! library's own builders. Verdicts of the library are compared with an
//! explicit model (conditions listed in the property statement); every
//! library-built object is additionally verified by the harness' own CMS
//! verifier (`der::CmsView::verify`). In relaxed (BER) mode part of the
//! independent-writer objects carry their eContent as a constructed OCTET
//! STRING (`Seg`): accepting those is not demanded, accepting one whose
//! digest attribute covers only part of the segments is forbidden.

use std::cell::RefCell;
use std::sync::OnceLock;

use bcder::encode::Values;
use bcder::{Mode, Oid};
use bytes::Bytes;
use proptest::prelude::*;
use rpki::crypto::DigestAlgorithm;
use rpki::repository::aspa::{Aspa, AspaBuilder};
use rpki::repository::cert::{Cert, KeyUsage, Overclaim, ResourceCert, TbsCert};
use rpki::repository::error::{ValidationError, VerificationError};
use rpki::repository::manifest::{FileAndHash, Manifest, ManifestContent};
use rpki::repository::resources::{Asn, Prefix};
use rpki::repository::roa::{Roa, RoaBuilder};
use rpki::repository::sigobj::{SignedObject, SignedObjectBuilder};
use rpki::repository::tal::TalInfo;
use rpki::repository::x509::{Serial, Time, Validity};
use rpki::uri;
use serde::{Deserialize, Serialize};

use crate::der::{self, oids, Cms, CmsOpts, RoaPfx, TimeEnc, Tm};
use crate::engine::*;
use crate::gen::{dense_u32, pick_idx, U128};
use crate::keys::{self, PoolSigner, POOL_SIZE};

pub const RULE: &str = "generic: independent-writer objects (der.rs) with content types ROA/MFT/ASPA/GBR or arbitrary OIDs of \
1..560 octets: 8/20 free (registered types, short OIDs: signed attributes 99..138 octets), 12/20 aimed at a size of the \
signed-attribute set - uniform 99..140 and 100..600, forced 126..129 (one/two length octets) and 254..258 (two/three length \
octets; exactly 256 in about 2.7 % of all cases), and the sizes where the OID / SET / SEQUENCE lengths change form; contents \
0..4 KiB, all four algorithm-identifier variants, UTCTime/GeneralizedTime signing time, EE resources missing/inherit/blocks \
(inside, equal, outside the issuer; Refuse/Trim), evaluation time at -1s/edge/+1s/mid/far of the EE validity through \
validate_at, or through process() with a CRL callback that looks the serial of the certificate it is handed up in a \
revocation set (EE serial listed or not, issuer serial listed or not) and records which certificate it was asked about; \
plus one of 15 single-point tampers, among them message-digest attributes of the wrong length that agree with the real \
digest where they overlap (first 0/1/16/31 octets; digest + 1..8 octets; empty digest with the content swapped after \
signing), signed correctly by the EE key; oracle = accept iff (no tamper and time in window and EE resources acceptable and \
EE serial not revoked), and the callback is asked exactly about the embedded EE certificate. BER-segmented content \
(relaxed decoding only, never strict; about 28 % of the relaxed generic cases, about 20 % of the relaxed roa/aspa/manifest \
cases, independent writer only): the eContent OCTET STRING in constructed form (24 len or 24 80 .. 00 00) cut at 0..4 points \
(also at offset 0 / at the end / twice at one offset) with up to two more segments without data, in any combination with \
the tampers; honest flavour = digest attribute over all segments: the object may be accepted or not (RFC 6488 demands DER), \
but if it is, content(), its iter()/len() and what process() returns must be the concatenation of all segments and the typed \
values the encoded ones; dishonest flavour = digest attribute = SHA-256 of the octets before the first empty segment, of \
the first k or of the last segments only (a proper part of the content), signed correctly by the EE key: must be rejected. \
For every accepted object of every sub-check: SHA-256 of the content the library hands out (typed objects: of the eContent \
as the harness parser reads it) equals the message-digest attribute in the object (c02:accepted-digest-mismatch). \
roa/aspa/manifest: typed \
contents from the independent writer and from RoaBuilder / AspaBuilder / ManifestContent::into_manifest (the latter \
tampered by bit flips or re-wrapped by der.rs with a wrong-length digest re-signed by the EE's pool key); ROA prefixes \
drawn relative to the EE resources (equal, more specific, wider, other, other family); oracle adds coverage by an interval \
model; manifests go through Manifest::validate_at (sid and all other tampers). built: SignedObjectBuilder::finalize with \
the same content-type size classes; oracle = harness' own CMS verifier (DER SET OF re-encoding + RSA via aws-lc-rs) accepts \
and the library accepts iff in window and untampered. non-trivial = signed attributes >= 128 bytes, or typed content with \
>= 2 prefixes / providers / entries, or any tamper, or a digest attribute over part of the segmented content. EE certificates of independent-writer objects come in foreign dress (der::Dress; acceptance demanded for extension order, CPS qualifier, further CRL-DP / SIA URIs, AS one-element ranges; optional for unknown extensions / access methods, missing NULL, non-canonical resource lists); ROAs are also written with the IPv6 family first; trust anchors 5, 6, 7 hold no IPv4 / no IPv6 / no IP space (inherit validates to nothing); digest faults include values of the right length differing from the real digest in two octets whose differences cancel under XOR, or with two octets exchanged.";

pub const SIG_F12: &str = "sigattrs-long-form-length";
pub const SIG_CRL_CERT: &str = "c02:crl-callback-wrong-cert";
pub const SIG_ACCEPTED_DIGEST: &str = "c02:accepted-digest-mismatch";

/// Serial numbers of the certificates in play: trust anchors, EE certificates
/// of `build_ee`, EE certificates made by the library's builders.
const TA_SERIAL: u64 = 1;
const EE_SERIAL: u64 = 2;
const BUILDER_SERIAL: u64 = 3;

//============ shared environment (also used by C14) ===========================

pub fn ymd(y: i32, m: u32, d: u32) -> i64 {
    Tm { year: y, month: m, day: d, hour: 0, min: 0, sec: 0 }.to_unix()
}

/// Library `Time` from Unix seconds via the harness' own calendar.
pub fn lib_time(secs: i64) -> Time {
    let t = Tm::from_unix(secs);
    Time::utc(t.year, t.month, t.day, t.hour, t.min, t.sec)
}

pub fn rsync_uri() -> uri::Rsync {
    uri::Rsync::from_slice(b"rsync://example.com/m/p").unwrap()
}

/// Issuer resources (the same for every pool key).
pub const TA_V4: &[(u32, u8)] = &[(0x0A00_0000, 8), (0xC0A8_0000, 16)];
pub const TA_V6: &[(u128, u8)] = &[(0x2001_0db8_0000_0000_0000_0000_0000_0000, 32)];
pub const TA_AS: &[(u32, u32)] = &[(64496, 64511), (65000, 65010)];

pub fn v4_bits(a: u32) -> u128 {
    (a as u128) << 96
}

struct Env {
    tas: Vec<ResourceCert>,
}

fn env() -> &'static Env {
    static ENV: OnceLock<Env> = OnceLock::new();
    ENV.get_or_init(|| {
        let signer = PoolSigner::new();
        let u = rsync_uri();
        let mut tas = Vec::new();
        for i in 0..POOL_SIZE {
            let pk = signer.info(i);
            let mut ta = TbsCert::new(
                TA_SERIAL.into(),
                pk.to_subject_name(),
                Validity::new(lib_time(ymd(2010, 1, 1)), lib_time(ymd(2090, 1, 1))),
                None,
                pk.clone(),
                KeyUsage::Ca,
                Overclaim::Refuse,
            );
            ta.set_basic_ca(Some(true));
            ta.set_ca_repository(Some(u.clone()));
            ta.set_rpki_manifest(Some(u.clone()));
            // trust anchors 5, 6 and 7 hold no IPv4 / no IPv6 / no IP space at all (an EE
            // certificate that inherits such a family validates to nothing for it)
            if ta_has_v4(i) {
                ta.build_v4_resource_blocks(|b| {
                    for &(a, l) in TA_V4 {
                        b.push(Prefix::new(v4_bits(a), l))
                    }
                });
            }
            if ta_has_v6(i) {
                ta.build_v6_resource_blocks(|b| {
                    for &(a, l) in TA_V6 {
                        b.push(Prefix::new(a, l))
                    }
                });
            }
            ta.build_as_resource_blocks(|b| {
                for &(lo, hi) in TA_AS {
                    b.push((Asn::from_u32(lo), Asn::from_u32(hi)))
                }
            });
            let cert = ta.into_cert(&signer, &signer.key(i)).expect("sign TA");
            let cert = Cert::decode(cert.to_captured().as_slice()).expect("TA decodes");
            let rc = cert
                .validate_ta_at(TalInfo::from_name("verif".into()).into_arc(), true, lib_time(ymd(2026, 1, 1)))
                .expect("TA validates");
            tas.push(rc);
        }
        Env { tas }
    })
}

pub fn ta_has_v4(idx: usize) -> bool {
    !matches!(idx % POOL_SIZE, 5 | 7)
}
pub fn ta_has_v6(idx: usize) -> bool {
    !matches!(idx % POOL_SIZE, 6 | 7)
}

/// The validated trust anchor held by pool key `idx`.
pub fn ta(idx: usize) -> &'static ResourceCert {
    &env().tas[idx % POOL_SIZE]
}

//------------ plain-data specs -------------------------------------------------

#[derive(Clone, Copy, Debug, PartialEq, Eq, Serialize, Deserialize)]
pub struct Pfx {
    /// address, left-aligned in 128 bits (IPv4 in the top 32 bits)
    pub bits: U128,
    pub len: u8,
}

impl Pfx {
    pub fn new(bits: u128, len: u8) -> Pfx {
        let p = Pfx { bits: U128(bits), len };
        Pfx { bits: U128(p.min()), len }
    }
    pub fn mask(self) -> u128 {
        if self.len == 0 { u128::MAX } else if self.len >= 128 { 0 } else { u128::MAX >> self.len }
    }
    pub fn min(self) -> u128 {
        self.bits.0 & !self.mask()
    }
    pub fn max(self) -> u128 {
        self.min() | self.mask()
    }
    fn overlaps(self, o: Pfx) -> bool {
        self.min() <= o.max() && o.min() <= self.max()
    }
}

#[derive(Clone, Debug, PartialEq, Eq, Serialize, Deserialize)]
pub enum Res {
    Missing,
    Inherit,
    Blocks(Vec<Pfx>),
}

#[derive(Clone, Debug, PartialEq, Eq, Serialize, Deserialize)]
pub enum AsRes {
    Missing,
    Inherit,
    Blocks(Vec<(u32, u32)>),
}

#[derive(Clone, Debug, Serialize, Deserialize)]
pub struct EeSpec {
    /// pool key of the EE certificate
    pub key: u8,
    /// pool key of the issuer (trust anchor)
    pub issuer: u8,
    pub v4: Res,
    pub v6: Res,
    pub asn: AsRes,
    /// Overclaim::Trim instead of Refuse
    pub trim: bool,
    /// notBefore / notAfter, Unix seconds
    pub nb: i64,
    pub na: i64,
    /// the EE certificate as another conforming implementation might have written it
    /// (independent-writer objects only; see `der::Dress`)
    #[serde(default)]
    pub dress: der::Dress,
}

#[derive(Clone, Copy, Debug, PartialEq, Eq)]
pub enum EeFault {
    None,
    /// signed by a key that is not the issuer's
    WrongSigner,
    /// AKI names another key
    Aki,
}

fn drop_overlaps(v: &mut Vec<Pfx>) {
    let mut out: Vec<Pfx> = Vec::new();
    for p in v.iter() {
        if !out.iter().any(|o| o.overlaps(*p)) {
            out.push(*p);
        }
    }
    *v = out;
}

impl EeSpec {
    /// Brings a generated spec into the documented domain: pairwise disjoint
    /// blocks, no empty block lists, at least one resource extension, distinct
    /// EE and issuer keys, notBefore < notAfter.
    pub fn normalize(mut self) -> Self {
        for (r, fam_max) in [(&mut self.v4, 32u8), (&mut self.v6, 128u8)] {
            if let Res::Blocks(b) = r {
                for p in b.iter_mut() {
                    *p = Pfx::new(p.bits.0, p.len.min(fam_max));
                }
                drop_overlaps(b);
                if b.is_empty() {
                    *r = Res::Missing;
                }
            }
        }
        if let AsRes::Blocks(b) = &mut self.asn {
            let mut out: Vec<(u32, u32)> = Vec::new();
            for &(lo, hi) in b.iter() {
                let (lo, hi) = (lo.min(hi), lo.max(hi));
                if !out.iter().any(|&(a, z)| a <= hi && lo <= z) {
                    out.push((lo, hi));
                }
            }
            *b = out;
            if b.is_empty() {
                self.asn = AsRes::Missing;
            }
        }
        if self.v4 == Res::Missing && self.v6 == Res::Missing && self.asn == AsRes::Missing {
            self.asn = AsRes::Inherit;
        }
        self.key %= POOL_SIZE as u8;
        self.issuer %= POOL_SIZE as u8;
        if self.key == self.issuer {
            self.key = (self.key + 1) % POOL_SIZE as u8;
        }
        if self.na <= self.nb {
            self.na = self.nb + 2;
        }
        self
    }
}

/// Builds the EE certificate with the library's `TbsCert` and the pool signer.
pub fn build_ee(spec: &EeSpec, fault: EeFault) -> Cert {
    let signer = PoolSigner::new();
    let issuer = spec.issuer as usize % POOL_SIZE;
    let ipk = signer.info(issuer);
    let epk = signer.info(spec.key as usize);
    let u = rsync_uri();
    let mut ee = TbsCert::new(
        EE_SERIAL.into(),
        ipk.to_subject_name(),
        Validity::new(lib_time(spec.nb), lib_time(spec.na)),
        None,
        epk,
        KeyUsage::Ee,
        if spec.trim { Overclaim::Trim } else { Overclaim::Refuse },
    );
    let aki = if fault == EeFault::Aki { signer.info(issuer + 1).key_identifier() } else { ipk.key_identifier() };
    ee.set_authority_key_identifier(Some(aki));
    ee.set_crl_uri(Some(u.clone()));
    ee.set_ca_issuer(Some(u.clone()));
    ee.set_signed_object(Some(u));
    match &spec.v4 {
        Res::Missing => {}
        Res::Inherit => ee.set_v4_resources_inherit(),
        Res::Blocks(b) => ee.build_v4_resource_blocks(|bb| {
            for p in b {
                bb.push(Prefix::new(p.bits.0, p.len))
            }
        }),
    }
    match &spec.v6 {
        Res::Missing => {}
        Res::Inherit => ee.set_v6_resources_inherit(),
        Res::Blocks(b) => ee.build_v6_resource_blocks(|bb| {
            for p in b {
                bb.push(Prefix::new(p.bits.0, p.len))
            }
        }),
    }
    match &spec.asn {
        AsRes::Missing => {}
        AsRes::Inherit => ee.set_as_resources_inherit(),
        AsRes::Blocks(b) => ee.build_as_resource_blocks(|bb| {
            for &(lo, hi) in b {
                bb.push((Asn::from_u32(lo), Asn::from_u32(hi)))
            }
        }),
    }
    let sign_key = if fault == EeFault::WrongSigner { issuer + 1 } else { issuer };
    ee.into_cert(&signer, &signer.key(sign_key)).expect("sign EE")
}

/// The EE certificate in DER, in the foreign dress the spec asks for (re-signed by
/// the key `build_ee` signed with).
pub fn build_ee_der(spec: &EeSpec, fault: EeFault) -> Result<Vec<u8>, Fail> {
    let der = build_ee(spec, fault).to_captured().into_bytes().to_vec();
    if spec.dress.is_plain() {
        return Ok(der);
    }
    let issuer = spec.issuer as usize % POOL_SIZE;
    let sign_key = if fault == EeFault::WrongSigner { issuer + 1 } else { issuer };
    der::dress_cert(&der, sign_key % POOL_SIZE, &spec.dress).map_err(|e| Fail::new(format!("harness: dressing the EE certificate failed: {}", e)))
}

fn label_dress(obs: &mut Obs, d: &der::Dress) -> bool {
    if d.is_plain() {
        return false;
    }
    obs.label("ee-dressed");
    obs.label_if(d.perm != 0, "ee-dress-ext-order");
    obs.label_if(!d.unknown.is_empty(), "ee-dress-unknown-ext");
    obs.label_if(d.sia != 0 || d.cps || d.crldp_https != 0, "ee-dress-sia-policy-crldp");
    obs.label_if(d.as_id_as_range != 0, "ee-dress-as-range");
    obs.label_if(d.acceptance_optional(), "ee-dress-acceptance-optional");
    d.acceptance_optional()
}

//------------ resource model ---------------------------------------------------

fn merge(mut r: Vec<(u128, u128)>) -> Vec<(u128, u128)> {
    r.sort();
    let mut out: Vec<(u128, u128)> = Vec::new();
    for (lo, hi) in r {
        if let Some(last) = out.last_mut() {
            if lo <= last.1 || (last.1 != u128::MAX && lo == last.1 + 1) {
                if hi > last.1 {
                    last.1 = hi;
                }
                continue;
            }
        }
        out.push((lo, hi));
    }
    out
}

fn within(r: (u128, u128), set: &[(u128, u128)]) -> bool {
    set.iter().any(|&(lo, hi)| lo <= r.0 && r.1 <= hi)
}

fn intersect(a: &[(u128, u128)], b: &[(u128, u128)]) -> Vec<(u128, u128)> {
    let mut out = Vec::new();
    for &(al, ah) in a {
        for &(bl, bh) in b {
            let lo = al.max(bl);
            let hi = ah.min(bh);
            if lo <= hi {
                out.push((lo, hi));
            }
        }
    }
    merge(out)
}

pub fn ta_v4() -> Vec<(u128, u128)> {
    merge(TA_V4.iter().map(|&(a, l)| { let p = Pfx::new(v4_bits(a), l); (p.min(), p.max()) }).collect())
}
pub fn ta_v6() -> Vec<(u128, u128)> {
    merge(TA_V6.iter().map(|&(a, l)| { let p = Pfx::new(a, l); (p.min(), p.max()) }).collect())
}
pub fn ta_as() -> Vec<(u128, u128)> {
    merge(TA_AS.iter().map(|&(lo, hi)| (lo as u128, hi as u128)).collect())
}

/// Validated resources of an EE certificate under the issuer (C01 model).
#[derive(Clone, Debug)]
pub struct Validated {
    pub v4: Vec<(u128, u128)>,
    pub v6: Vec<(u128, u128)>,
    pub asn: Vec<(u128, u128)>,
}

fn validate_family(
    claimed: Option<Vec<(u128, u128)>>, // None = inherit
    missing: bool,
    issuer: Vec<(u128, u128)>,
    trim: bool,
) -> Option<Vec<(u128, u128)>> {
    if missing {
        return Some(Vec::new());
    }
    match claimed {
        None => Some(issuer),
        Some(c) => {
            let c = merge(c);
            if trim {
                Some(intersect(&c, &issuer))
            } else if c.iter().all(|&r| within(r, &issuer)) {
                Some(c)
            } else {
                None
            }
        }
    }
}

/// `None`: the certificate overclaims under the Refuse policy.
pub fn validated(ee: &EeSpec) -> Option<Validated> {
    let fam = |r: &Res, issuer: Vec<(u128, u128)>| match r {
        Res::Missing => validate_family(None, true, issuer, ee.trim),
        Res::Inherit => validate_family(None, false, issuer, ee.trim),
        Res::Blocks(b) => validate_family(Some(b.iter().map(|p| (p.min(), p.max())).collect()), false, issuer, ee.trim),
    };
    let issuer = ee.issuer as usize % POOL_SIZE;
    let v4 = fam(&ee.v4, if ta_has_v4(issuer) { ta_v4() } else { Vec::new() })?;
    let v6 = fam(&ee.v6, if ta_has_v6(issuer) { ta_v6() } else { Vec::new() })?;
    let asn = match &ee.asn {
        AsRes::Missing => validate_family(None, true, ta_as(), ee.trim),
        AsRes::Inherit => validate_family(None, false, ta_as(), ee.trim),
        AsRes::Blocks(b) => {
            validate_family(Some(b.iter().map(|&(lo, hi)| (lo as u128, hi as u128)).collect()), false, ta_as(), ee.trim)
        }
    }?;
    Some(Validated { v4, v6, asn })
}

//------------ CMS options, content types, contents ------------------------------

#[derive(Clone, Copy, Debug, Serialize, Deserialize)]
pub struct Opts {
    pub sig_sha256rsa: bool,
    pub sig_null: bool,
    pub dig_set_null: bool,
    pub dig_si_null: bool,
    /// signing time (UTCTime through 2049, GeneralizedTime from 2050 on)
    pub st: i64,
}

impl Opts {
    pub fn cms(self) -> CmsOpts {
        CmsOpts {
            sig_alg_sha256_with_rsa: self.sig_sha256rsa,
            sig_alg_null: self.sig_null,
            digest_set_null: self.dig_set_null,
            digest_si_null: self.dig_si_null,
        }
    }
    pub fn st(self) -> TimeEnc {
        TimeEnc::new(self.st, false)
    }
}

pub fn opts_strategy() -> BoxedStrategy<Opts> {
    (
        any::<bool>(),
        prop::bool::weighted(0.7),
        any::<bool>(),
        any::<bool>(),
        prop_oneof![
            3 => ymd(2015, 1, 1)..ymd(2049, 12, 31),
            1 => Just(ymd(2050, 1, 1) - 1),
            1 => Just(ymd(2050, 1, 1)),
            2 => ymd(2050, 1, 1)..ymd(2120, 1, 1),
        ],
    )
        .prop_map(|(a, b, c, d, st)| Opts { sig_sha256rsa: a, sig_null: b, dig_set_null: c, dig_si_null: d, st })
        .boxed()
}

#[derive(Clone, Debug, PartialEq, Eq, Serialize, Deserialize)]
pub enum Ct {
    Roa,
    Mft,
    Aspa,
    Gbr,
    /// 1.2.<arcs> (truncated to at most `CT_MAX` content octets)
    Other(Vec<u32>),
}

/// Longest content-type OID (content octets) the writers are given: together
/// with the digest and signing-time attributes this spans signed-attribute
/// sets of up to about 670 octets (one-, two- and three-octet length forms).
pub const CT_MAX: usize = 560;

impl Ct {
    pub fn bytes(&self) -> Vec<u8> {
        match self {
            Ct::Roa => oids::CT_ROA.to_vec(),
            Ct::Mft => oids::CT_MFT.to_vec(),
            Ct::Aspa => oids::CT_ASPA.to_vec(),
            Ct::Gbr => oids::CT_GBR.to_vec(),
            Ct::Other(arcs) => {
                let mut a: Vec<u64> = vec![1, 2];
                a.extend(arcs.iter().map(|&x| x as u64));
                loop {
                    let c = der::oid_content(&a);
                    if c.len() <= CT_MAX || a.len() <= 2 {
                        return c;
                    }
                    a.pop();
                }
            }
        }
    }
}

pub fn ct_strategy() -> BoxedStrategy<Ct> {
    prop_oneof![
        3 => prop::sample::select(vec![Ct::Roa, Ct::Mft, Ct::Aspa, Ct::Gbr]),
        // one-octet arcs: content length = count + 1, dense around the
        // 127/128-byte boundary of the attribute set (content 30..34 octets)
        10 => (24usize..=39, prop::collection::vec(0u32..128, 39)).prop_map(|(n, mut v)| { v.truncate(n); Ct::Other(v) }),
        3 => prop::collection::vec(0u32..128, 0..24).prop_map(Ct::Other),
        4 => prop::collection::vec(dense_u32(), 0..10).prop_map(Ct::Other),
    ]
    .boxed()
}

/// Size of the signed-attribute set (content octets of the `[0]` field) of an
/// object with the three RFC 6488 attributes, a content-type OID of `ct_len`
/// content octets and the given signing time.
pub fn attrs_len_for(ct_len: usize, st: TimeEnc) -> usize {
    der::attrs_content_len(&[
        der::attr_content_type(&vec![0u8; ct_len]),
        der::attr_message_digest(&[0u8; 32]),
        der::attr_signing_time(st),
    ])
}

/// Smallest content-type OID length for which the attribute set has at least
/// `target` octets (exactly `target` except where a length field grows).
fn ct_len_for_target(target: usize, st: TimeEnc) -> usize {
    let mut n = target.saturating_sub(106).max(1);
    while n < CT_MAX && attrs_len_for(n, st) < target {
        n += 1;
    }
    n
}

fn arc_octets(a: u32) -> usize {
    match a {
        0..=0x7f => 1,
        0x80..=0x3fff => 2,
        0x4000..=0x1f_ffff => 3,
        0x20_0000..=0xfff_ffff => 4,
        _ => 5,
    }
}

/// Arcs for `Ct::Other` whose OID has exactly `n` content octets: a prefix of
/// `arcs`, filled up with one-octet arcs.
fn fit_arcs(arcs: &[u32], n: usize) -> Vec<u32> {
    let mut out = Vec::new();
    let mut len = 1; // 1.2 is one octet
    for &a in arcs {
        if len + arc_octets(a) > n {
            break;
        }
        len += arc_octets(a);
        out.push(a);
    }
    while len < n {
        out.push((len % 128) as u32);
        len += 1;
    }
    out
}

/// Content type and options drawn together: the size of the attribute set
/// depends on both (UTCTime / GeneralizedTime signing time differ by two
/// octets). 8 of 20 parts use `ct_strategy` (registered types and short
/// OIDs), the rest aims at a target size of the signed-attribute set:
/// anything in 99..=140 and 100..=600, exactly 126..=129 (one- to two-octet
/// length), exactly 254..=258 (two- to three-octet length) and the sizes at
/// which the lengths of the OID, of its SET and of the attribute SEQUENCE
/// themselves change form.
pub fn sized_ct_strategy() -> BoxedStrategy<(Ct, Opts)> {
    let target = prop_oneof![
        8 => Just(None),
        2 => (99usize..=140).prop_map(Some),
        2 => (126usize..=129).prop_map(Some),
        3 => (254usize..=258).prop_map(Some),
        4 => (100usize..=600).prop_map(Some),
        1 => prop_oneof![218usize..=236, 354usize..=374].prop_map(Some),
    ];
    let arcs = prop_oneof![
        3 => Just(Vec::new()),
        2 => prop::collection::vec(prop_oneof![3 => 0u32..128, 1 => dense_u32()], 0..24),
        1 => prop::collection::vec(0u32..128, 100..CT_MAX),
    ];
    (ct_strategy(), opts_strategy(), target, arcs)
        .prop_map(|(free, opts, target, arcs)| match target {
            None => (free, opts),
            Some(t) => (Ct::Other(fit_arcs(&arcs, ct_len_for_target(t, opts.st()))), opts),
        })
        .boxed()
}

#[derive(Clone, Debug, Serialize, Deserialize)]
pub struct Content {
    pub head: Vec<u8>,
    /// number of additional octets (a fixed pattern derived from the index)
    pub pad: u16,
}

impl Content {
    pub fn bytes(&self) -> Vec<u8> {
        let mut v = self.head.clone();
        v.extend((0..self.pad as usize).map(|i| (i as u8).wrapping_mul(31).wrapping_add(7)));
        v
    }
}

pub fn content_strategy() -> BoxedStrategy<Content> {
    (
        prop::collection::vec(any::<u8>(), 0..40),
        prop_oneof![6 => Just(0u16), 2 => 0u16..300, 1 => 300u16..4096],
    )
        .prop_map(|(head, pad)| Content { head, pad })
        .boxed()
}

//------------ generators for resources -------------------------------------------

const V4_IN: &[(u32, u8)] = &[
    (0x0A00_0000, 8), (0x0A00_0000, 9), (0x0A80_0000, 9), (0x0A01_0000, 16), (0x0A01_0200, 24),
    (0x0AFF_FFFF, 32), (0xC0A8_0000, 16), (0xC0A8_8000, 17), (0xC0A8_0400, 22), (0x0A00_0000, 32),
];
const V4_OUT: &[(u32, u8)] = &[
    (0x0B00_0000, 8), (0x0800_0000, 6), (0, 0), (0xC0A8_0000, 15), (0xAC10_0000, 12), (0x09FF_FFFF, 32),
    (0xC100_0000, 8), (0xC0A9_0000, 16),
];
const V6_IN: &[(u128, u8)] = &[
    (0x2001_0db8_0000_0000_0000_0000_0000_0000, 32),
    (0x2001_0db8_0000_0000_0000_0000_0000_0000, 33),
    (0x2001_0db8_8000_0000_0000_0000_0000_0000, 33),
    (0x2001_0db8_0001_0000_0000_0000_0000_0000, 48),
    (0x2001_0db8_0000_0000_0000_0000_0000_0001, 128),
    (0x2001_0db8_ffff_ffff_ffff_ffff_ffff_ffff, 128),
];
const V6_OUT: &[(u128, u8)] = &[
    (0x2001_0db8_0000_0000_0000_0000_0000_0000, 31),
    (0x2001_0db9_0000_0000_0000_0000_0000_0000, 32),
    (0, 0),
    (0x2001_0db7_ffff_0000_0000_0000_0000_0000, 48),
    (0xfe80_0000_0000_0000_0000_0000_0000_0000, 10),
];
const AS_IN: &[(u32, u32)] = &[(64496, 64511), (64496, 64496), (64500, 64505), (65000, 65010), (65005, 65005), (64511, 64511)];
const AS_OUT: &[(u32, u32)] = &[(64495, 64496), (64512, 64512), (0, 0), (0, u32::MAX), (65011, 65011), (u32::MAX, u32::MAX), (64511, 65000)];

fn v4_table(inside: bool) -> Vec<Pfx> {
    (if inside { V4_IN } else { V4_OUT }).iter().map(|&(a, l)| Pfx::new(v4_bits(a), l)).collect()
}
fn v6_table(inside: bool) -> Vec<Pfx> {
    (if inside { V6_IN } else { V6_OUT }).iter().map(|&(a, l)| Pfx::new(a, l)).collect()
}

fn pfx_strategy(v6: bool) -> BoxedStrategy<Pfx> {
    let (i, o) = if v6 { (v6_table(true), v6_table(false)) } else { (v4_table(true), v4_table(false)) };
    prop_oneof![5 => prop::sample::select(i), 1 => prop::sample::select(o)].boxed()
}

fn res_strategy(v6: bool) -> BoxedStrategy<Res> {
    prop_oneof![
        3 => Just(Res::Missing),
        2 => Just(Res::Inherit),
        6 => prop::collection::vec(pfx_strategy(v6), 1..=3).prop_map(Res::Blocks),
    ]
    .boxed()
}

fn asres_strategy() -> BoxedStrategy<AsRes> {
    let blk = prop_oneof![5 => prop::sample::select(AS_IN.to_vec()), 1 => prop::sample::select(AS_OUT.to_vec())];
    prop_oneof![
        3 => Just(AsRes::Missing),
        2 => Just(AsRes::Inherit),
        6 => prop::collection::vec(blk, 1..=3).prop_map(AsRes::Blocks),
    ]
    .boxed()
}

/// EE window used for everything that goes through the wall clock.
pub fn wide_window() -> (i64, i64) {
    (ymd(2020, 1, 1), ymd(2045, 1, 1))
}

fn window_strategy() -> BoxedStrategy<(i64, i64)> {
    prop_oneof![
        2 => (ymd(2024, 1, 1)..ymd(2030, 1, 1), 2i64..400 * 86_400).prop_map(|(nb, d)| (nb, nb + d)),
        // around the UTCTime / GeneralizedTime switch
        1 => (-3i64..3, 2i64..86_400).prop_map(|(o, d)| (ymd(2050, 1, 1) + o - d, ymd(2050, 1, 1) + o)),
        1 => (-3i64..3, 2i64..86_400).prop_map(|(o, d)| (ymd(2050, 1, 1) + o, ymd(2050, 1, 1) + o + d)),
    ]
    .boxed()
}

fn ee_strategy(wide: bool) -> BoxedStrategy<EeSpec> {
    let win = if wide {
        (0i64..86_400, 0i64..86_400).prop_map(|(a, b)| { let (nb, na) = wide_window(); (nb + a, na + b) }).boxed()
    } else {
        window_strategy()
    };
    // issuers 5..8 (trust anchors lacking an IP family) in one case out of seven
    (0u8..8, prop_oneof![6 => 0u8..5, 1 => 5u8..8], res_strategy(false), res_strategy(true), asres_strategy(), prop::bool::weighted(0.25), win, (any::<u16>(), any::<u64>()))
        .prop_map(|(key, issuer, v4, v6, asn, trim, (nb, na), (dc, dr))| {
            EeSpec { key, issuer, v4, v6, asn, trim, nb, na, dress: der::Dress::from_raw(dc, dr) }.normalize()
        })
        .boxed()
}

//------------ evaluation time -------------------------------------------------------

#[derive(Clone, Copy, Debug, PartialEq, Eq, Serialize, Deserialize)]
pub enum Eval {
    Mid,
    NbMinus1,
    Nb,
    NbPlus1,
    NaMinus1,
    Na,
    NaPlus1,
    FarBefore,
    FarAfter,
}

impl Eval {
    pub fn time(self, nb: i64, na: i64) -> i64 {
        match self {
            Eval::Mid => nb + (na - nb) / 2,
            Eval::NbMinus1 => nb - 1,
            Eval::Nb => nb,
            Eval::NbPlus1 => nb + 1,
            Eval::NaMinus1 => na - 1,
            Eval::Na => na,
            Eval::NaPlus1 => na + 1,
            Eval::FarBefore => nb - 10 * 365 * 86_400,
            Eval::FarAfter => na + 10 * 365 * 86_400,
        }
    }
}

pub fn eval_strategy() -> BoxedStrategy<Eval> {
    prop_oneof![
        6 => Just(Eval::Mid),
        1 => Just(Eval::NbMinus1), 1 => Just(Eval::Nb), 1 => Just(Eval::NbPlus1),
        1 => Just(Eval::NaMinus1), 1 => Just(Eval::Na), 1 => Just(Eval::NaPlus1),
        1 => Just(Eval::FarBefore), 1 => Just(Eval::FarAfter),
    ]
    .boxed()
}

//------------ BER-segmented eContent (relaxed decoding only) --------------------------

/// Which octets the message-digest attribute of an object with segmented
/// eContent is computed over. Everything but `All` signs (correctly, with
/// the EE key) a digest of only part of the content.
#[derive(Clone, Copy, Debug, Default, PartialEq, Eq, Serialize, Deserialize)]
pub enum SegDigest {
    /// all segments: the digest of the content
    #[default]
    All,
    /// the segments in front of the first segment without data
    BeforeEmpty,
    /// the first k segments (k = pick_idx(raw, n): at least the last one is left out)
    Prefix(u16),
    /// the segments from index k on (k = 1 + pick_idx(raw, n): at least the first one is left out)
    Suffix(u16),
}

/// eContent written as a BER constructed OCTET STRING (`24 ..` holding
/// primitive segments `04 ..`). Plain data, resolved against the length of
/// the content when the object is assembled.
#[derive(Clone, Debug, Default, PartialEq, Eq, Serialize, Deserialize)]
pub struct Seg {
    /// cut points: each maps to the offset pick_idx(raw, len + 1) of the
    /// content; equal offsets (and offsets 0 / len) give segments without data
    pub cuts: Vec<u16>,
    /// additional segments without data, each inserted at index
    /// pick_idx(raw, n + 1) of the list of segments made so far
    #[serde(default)]
    pub empties: Vec<u16>,
    #[serde(default)]
    pub digest: SegDigest,
    /// `24 80 .. 00 00` instead of a definite length
    #[serde(default)]
    pub indefinite: bool,
}

impl Seg {
    /// Segment lengths for `der::Cms::encode_segmented` (they add up to `len`).
    pub fn lens(&self, len: usize) -> Vec<u16> {
        let mut pos: Vec<usize> = self.cuts.iter().map(|&c| pick_idx(c, len + 1)).collect();
        pos.sort_unstable();
        let mut lens: Vec<u16> = Vec::new();
        let mut prev = 0usize;
        for p in pos {
            let n = (p - prev).min(u16::MAX as usize);
            lens.push(n as u16);
            prev += n;
        }
        if prev < len || lens.is_empty() {
            lens.push((len - prev).min(u16::MAX as usize) as u16);
        }
        for &e in &self.empties {
            let at = pick_idx(e, lens.len() + 1);
            lens.insert(at, 0);
        }
        lens
    }

    pub fn segments(&self, content: &[u8]) -> Vec<Vec<u8>> {
        der::split_segments(content, &self.lens(content.len()))
    }

    /// The octets the message-digest attribute is computed over.
    pub fn digest_part(&self, content: &[u8]) -> Vec<u8> {
        let segs = self.segments(content);
        let n = segs.len();
        match self.digest {
            SegDigest::All => content.to_vec(),
            SegDigest::BeforeEmpty => segs.iter().take_while(|s| !s.is_empty()).flatten().copied().collect(),
            SegDigest::Prefix(r) => segs[..pick_idx(r, n)].concat(),
            SegDigest::Suffix(r) => segs[(1 + pick_idx(r, n)).min(n)..].concat(),
        }
    }

    /// The digest attribute covers less than the content: the condition
    /// "message-digest attribute equals the SHA-256 of the content" is violated.
    pub fn dishonest(&self, content: &[u8]) -> bool {
        self.digest_part(content) != content
    }

    /// A segment without data that is followed by one with data.
    pub fn empty_before_data(&self, content: &[u8]) -> bool {
        let segs = self.segments(content);
        match segs.iter().position(|s| s.is_empty()) {
            Some(i) => segs[i..].iter().any(|s| !s.is_empty()),
            None => false,
        }
    }
}

/// Honest 4 : digest of what precedes the first empty segment 3 : of the
/// first segments 2 : of the last segments 1; one to four cut points, up to
/// two extra empty segments (at least one for the second flavour); one in
/// five with an indefinite length.
pub fn seg_strategy() -> BoxedStrategy<Seg> {
    let cut = prop_oneof![6 => any::<u16>(), 1 => Just(0u16), 1 => Just(u16::MAX)];
    let flavour = prop_oneof![
        4 => Just(SegDigest::All),
        3 => Just(SegDigest::BeforeEmpty),
        2 => any::<u16>().prop_map(SegDigest::Prefix),
        1 => any::<u16>().prop_map(SegDigest::Suffix),
    ];
    (
        prop::collection::vec(cut, 0..=4),
        prop::collection::vec(any::<u16>(), 0..=2),
        1u16..u16::MAX,
        flavour,
        prop::bool::weighted(0.2),
    )
        .prop_map(|(cuts, mut empties, inner, digest, indefinite)| {
            if digest == SegDigest::BeforeEmpty && empties.is_empty() {
                empties.push(inner);
            }
            Seg { cuts, empties, digest, indefinite }
        })
        .boxed()
}

/// Segmentation is only ever applied to objects of the independent writer
/// that are decoded in relaxed (BER) mode.
pub fn opt_seg_strategy(share: f64) -> BoxedStrategy<Option<Seg>> {
    prop::option::weighted(share, seg_strategy()).boxed()
}

fn label_seg(obs: &mut Obs, seg: Option<&Seg>, content: &[u8]) -> bool {
    let Some(s) = seg else { return false };
    let dishonest = s.dishonest(content);
    let n = s.segments(content).len();
    obs.label("seg");
    obs.label(if dishonest { "seg:dishonest" } else { "seg:honest" });
    obs.label_if(dishonest && s.digest == SegDigest::BeforeEmpty, "seg:digest-before-empty");
    obs.label_if(dishonest && matches!(s.digest, SegDigest::Prefix(_)), "seg:digest-prefix");
    obs.label_if(dishonest && matches!(s.digest, SegDigest::Suffix(_)), "seg:digest-suffix");
    obs.label_if(!dishonest && s.empty_before_data(content), "seg:honest-empty-before-data");
    obs.label_if(n >= 3, "seg:>=3-segments");
    obs.label_if(s.indefinite, "seg:indefinite");
    dishonest
}

//------------ tampering ---------------------------------------------------------------

#[derive(Clone, Copy, Debug, PartialEq, Eq, Serialize, Deserialize)]
pub struct Flip {
    pub pos: u16,
    pub bit: u8,
}

/// A message-digest attribute whose value has the wrong *length* but agrees
/// with the real digest wherever the two overlap. The attributes carrying it
/// are signed correctly by the EE key, so only the digest condition fails.
#[derive(Clone, Copy, Debug, PartialEq, Eq, Serialize, Deserialize)]
pub enum DigestFault {
    /// the first k (0..=31) octets of the real digest
    Short(u8),
    /// the real digest followed by n (1..=8) further octets
    Long(u8),
    /// an empty digest value, and the content replaced after signing
    EmptySwap,
    /// the right length, two octets of the real digest changed by the same mask (the
    /// differences cancel under XOR) or, with mask 0, exchanged
    TwoOctets { i: u8, j: u8, mask: u8 },
}

impl DigestFault {
    /// Value of the message-digest attribute.
    pub fn value(self, real: &[u8]) -> Vec<u8> {
        match self {
            DigestFault::Short(k) => real[..(k as usize).min(real.len().saturating_sub(1))].to_vec(),
            DigestFault::Long(n) => {
                let mut v = real.to_vec();
                v.extend((0..n.clamp(1, 8)).map(|i| i.wrapping_mul(0x3b) ^ 0x80));
                v
            }
            DigestFault::EmptySwap => Vec::new(),
            DigestFault::TwoOctets { i, j, mask } => {
                let mut v = real.to_vec();
                let n = v.len().max(2);
                let (i, mut j) = (i as usize % n, j as usize % n);
                if i == j {
                    j = (j + 1) % n;
                }
                if v.len() >= 2 {
                    if mask != 0 {
                        v[i] ^= mask;
                        v[j] ^= mask;
                    } else if v[i] != v[j] {
                        v.swap(i, j);
                    } else {
                        v[i] ^= 0x55;
                        v[j] ^= 0x55;
                    }
                }
                v
            }
        }
    }
    pub fn label(self) -> &'static str {
        match self {
            DigestFault::Short(_) => "tamper:digest-short",
            DigestFault::Long(_) => "tamper:digest-long",
            DigestFault::EmptySwap => "tamper:digest-empty-swap",
            DigestFault::TwoOctets { .. } => "tamper:digest-two-octets",
        }
    }
    /// Replaces the content "after signing" (same change as `ContentAfter`).
    pub fn swap_content(self, content: &mut Vec<u8>) {
        if self == DigestFault::EmptySwap {
            swap_content(content)
        }
    }
}

/// The content as replaced after signing.
pub fn swap_content(content: &mut Vec<u8>) {
    if let Some(b) = content.first_mut() {
        *b ^= 0x01;
    } else {
        content.push(0);
    }
}

/// Short (0, 1, 16, 31 octets) 4 : long (1..=8 extra octets) 3 : empty + swapped content 2.
pub fn digest_fault_strategy() -> BoxedStrategy<DigestFault> {
    prop_oneof![
        4 => prop::sample::select(vec![0u8, 1, 16, 31]).prop_map(DigestFault::Short),
        3 => (1u8..=8).prop_map(DigestFault::Long),
        2 => Just(DigestFault::EmptySwap),
        3 => (0u8..32, 0u8..32, prop_oneof![Just(0u8), Just(1u8), Just(0x80u8), any::<u8>()]).prop_map(|(i, j, mask)| DigestFault::TwoOctets { i, j, mask }),
    ]
    .boxed()
}

/// Takes a finished object apart with the harness parser, replaces its
/// message-digest attribute according to `f`, signs the attributes again with
/// the pool key of the embedded EE certificate and writes the object with the
/// independent writer. Used for objects made by the library's builders.
pub fn resign_with_digest_fault(bytes: &[u8], f: DigestFault) -> Result<Vec<u8>, Fail> {
    let view = der::cms_parse(bytes).map_err(|e| Fail::new(format!("harness parser rejects an untampered object: {}", e)))?;
    let cert = der::cert_parse(view.certs.first().ok_or_else(|| Fail::new("harness: no certificate in object"))?).map_err(Fail::new)?;
    let key = keys::pool()
        .spki
        .iter()
        .position(|s| s.as_slice() == cert.spki.as_slice())
        .ok_or_else(|| Fail::new("harness: EE key of a library-built object is not a pool key"))?;
    let idx = view.attr_index(oids::MESSAGE_DIGEST).ok_or_else(|| Fail::new("library-built object without message-digest attribute"))?;
    let mut cms = view.to_cms(CmsOpts { sig_alg_null: true, ..CmsOpts::default() });
    cms.attrs[idx] = der::attr_message_digest(&f.value(&keys::sha256(&view.content)));
    cms.signature = keys::raw_sign(key, &der::attrs_to_be_signed(&cms.attrs));
    f.swap_content(&mut cms.content);
    Ok(cms.encode())
}

#[derive(Clone, Copy, Debug, PartialEq, Eq, Serialize, Deserialize)]
pub enum Tamper {
    None,
    /// message-digest attribute of other content, attributes re-signed
    DigestAttr,
    /// content replaced after signing
    ContentAfter,
    /// signature made over attributes with another signing time
    SigOtherBytes,
    /// signature made with a key that is not the EE certificate's
    WrongKey,
    /// sid names another key
    Sid,
    SigFlip(Flip),
    AttrsFlip(Flip),
    ContentFlip(Flip),
    /// bit flip inside the TBS bytes of the embedded EE certificate
    CertTbsFlip(Flip),
    /// EE certificate signed by a key that is not the issuer's
    EeWrongSigner,
    /// EE certificate's AKI names another key
    EeAki,
    /// validated under the trust anchor of another key
    OtherIssuer,
    /// message-digest attribute of the wrong length (prefix of the real
    /// digest / real digest plus extra octets), attributes re-signed
    DigestLen(DigestFault),
}

impl Tamper {
    pub fn label(self) -> &'static str {
        match self {
            Tamper::None => "tamper:none",
            Tamper::DigestAttr => "tamper:digest-attr",
            Tamper::ContentAfter => "tamper:content-after",
            Tamper::SigOtherBytes => "tamper:sig-other-bytes",
            Tamper::WrongKey => "tamper:wrong-key",
            Tamper::Sid => "tamper:sid",
            Tamper::SigFlip(_) => "tamper:sig-flip",
            Tamper::AttrsFlip(_) => "tamper:attrs-flip",
            Tamper::ContentFlip(_) => "tamper:content-flip",
            Tamper::CertTbsFlip(_) => "tamper:cert-tbs-flip",
            Tamper::EeWrongSigner => "tamper:ee-wrong-signer",
            Tamper::EeAki => "tamper:ee-aki",
            Tamper::OtherIssuer => "tamper:other-issuer",
            Tamper::DigestLen(f) => f.label(),
        }
    }
    fn ee_fault(self) -> EeFault {
        match self {
            Tamper::EeWrongSigner => EeFault::WrongSigner,
            Tamper::EeAki => EeFault::Aki,
            _ => EeFault::None,
        }
    }
    /// Tampers that the CMS layer alone (without the chain) must notice.
    fn cms_level(self) -> bool {
        matches!(
            self,
            Tamper::DigestAttr | Tamper::ContentAfter | Tamper::SigOtherBytes | Tamper::WrongKey | Tamper::Sid
                | Tamper::SigFlip(_) | Tamper::AttrsFlip(_) | Tamper::ContentFlip(_) | Tamper::DigestLen(_)
        )
    }
    /// Tampers that can be applied to a finished (library-built) object.
    fn post_hoc(self) -> bool {
        matches!(
            self,
            Tamper::None | Tamper::SigFlip(_) | Tamper::AttrsFlip(_) | Tamper::ContentFlip(_) | Tamper::CertTbsFlip(_)
                | Tamper::OtherIssuer | Tamper::DigestLen(_)
        )
    }
}

pub fn flip_strategy() -> BoxedStrategy<Flip> {
    (any::<u16>(), 0u8..8).prop_map(|(pos, bit)| Flip { pos, bit }).boxed()
}

/// All tamper kinds; `none_weight` parts are untampered, 12 parts one each of
/// the single-point tampers, 3 parts a digest attribute of the wrong length.
pub fn tamper_strategy(none_weight: u32) -> BoxedStrategy<Tamper> {
    prop_oneof![
        none_weight => Just(Tamper::None),
        1 => Just(Tamper::DigestAttr),
        1 => Just(Tamper::ContentAfter),
        1 => Just(Tamper::SigOtherBytes),
        1 => Just(Tamper::WrongKey),
        1 => Just(Tamper::Sid),
        1 => flip_strategy().prop_map(Tamper::SigFlip),
        1 => flip_strategy().prop_map(Tamper::AttrsFlip),
        1 => flip_strategy().prop_map(Tamper::ContentFlip),
        1 => flip_strategy().prop_map(Tamper::CertTbsFlip),
        1 => Just(Tamper::EeWrongSigner),
        1 => Just(Tamper::EeAki),
        1 => Just(Tamper::OtherIssuer),
        3 => digest_fault_strategy().prop_map(Tamper::DigestLen),
    ]
    .boxed()
}

fn post_hoc_tamper_strategy(none_weight: u32) -> BoxedStrategy<Tamper> {
    prop_oneof![
        none_weight => Just(Tamper::None),
        1 => flip_strategy().prop_map(Tamper::SigFlip),
        1 => flip_strategy().prop_map(Tamper::AttrsFlip),
        1 => flip_strategy().prop_map(Tamper::ContentFlip),
        1 => flip_strategy().prop_map(Tamper::CertTbsFlip),
        1 => Just(Tamper::OtherIssuer),
        2 => digest_fault_strategy().prop_map(Tamper::DigestLen),
    ]
    .boxed()
}

pub fn flip_in(bytes: &mut [u8], region: (usize, usize), f: Flip) -> Result<(), Fail> {
    let (lo, hi) = region;
    ensure!(lo < hi && hi <= bytes.len(), "harness: empty tamper region {:?}", region);
    let i = lo + pick_idx(f.pos, hi - lo);
    bytes[i] ^= 1 << (f.bit & 7);
    Ok(())
}

/// Applies a byte-level tamper to a finished object.
pub fn tamper_bytes(bytes: &mut Vec<u8>, t: Tamper) -> Result<(), Fail> {
    let region = |b: &[u8]| -> Result<der::CmsView, Fail> {
        der::cms_parse(b).map_err(|e| Fail::new(format!("harness parser rejects an untampered object: {}", e)))
    };
    match t {
        Tamper::SigFlip(f) => {
            let v = region(bytes)?;
            flip_in(bytes, v.span_signature, f)
        }
        Tamper::AttrsFlip(f) => {
            let v = region(bytes)?;
            flip_in(bytes, v.span_attrs, f)
        }
        Tamper::ContentFlip(f) => {
            let v = region(bytes)?;
            // an empty eContent has no byte to flip: flip a signed attribute byte instead
            let r = if v.span_content.0 < v.span_content.1 { v.span_content } else { v.span_attrs };
            flip_in(bytes, r, f)
        }
        Tamper::CertTbsFlip(f) => {
            let v = region(bytes)?;
            let r = v.span_cert_tbs.ok_or_else(|| Fail::new("harness: no certificate in object"))?;
            flip_in(bytes, r, f)
        }
        _ => Ok(()),
    }
}

/// Applies a tamper to an object made by one of the library's builders: the
/// byte-level ones directly, a digest attribute of the wrong length by
/// re-signing with the EE's pool key (`resign_with_digest_fault`); the
/// re-signed object must be one the harness verifier rejects, too.
pub fn tamper_built(bytes: &mut Vec<u8>, t: Tamper) -> Result<(), Fail> {
    if let Tamper::DigestLen(f) = t {
        *bytes = resign_with_digest_fault(bytes, f)?;
        return check_own_verifier(bytes, t);
    }
    tamper_bytes(bytes, t)
}

/// Assembles an object with the independent writer, applying `tamper`.
/// Returns the encoded object and the size of the signed-attribute content.
pub fn assemble(
    ct: &[u8],
    content: &[u8],
    ee: &EeSpec,
    opts: Opts,
    tamper: Tamper,
) -> Result<(Vec<u8>, usize), Fail> {
    assemble_seg(ct, content, ee, opts, tamper, None)
}

/// Same, with the eContent optionally written as a BER constructed OCTET
/// STRING. The message-digest attribute covers the part of the content
/// `seg.digest` names and the signature is made over those attributes (a
/// digest tamper replaces the attribute once more). A `ContentFlip` changes
/// a bit of the data inside a segment, not of the segment headers.
pub fn assemble_seg(
    ct: &[u8],
    content: &[u8],
    ee: &EeSpec,
    opts: Opts,
    tamper: Tamper,
    seg: Option<&Seg>,
) -> Result<(Vec<u8>, usize), Fail> {
    let mut content = content.to_vec();
    if content.is_empty() && matches!(tamper, Tamper::ContentFlip(_)) {
        content.push(0x5A);
    }
    let cert_der = build_ee_der(ee, tamper.ee_fault())?;
    let key = ee.key as usize % POOL_SIZE;
    let mut cms = Cms::standard(ct, &content, cert_der, vec![], key, opts.st(), &[], opts.cms());
    if let Some(s) = seg {
        let part = s.digest_part(&content);
        if part != content {
            cms.attrs[1] = der::attr_message_digest(&keys::sha256(&part));
            cms.signature = keys::raw_sign(key, &der::attrs_to_be_signed(&cms.attrs));
        }
    }
    match tamper {
        Tamper::DigestAttr => {
            let mut other = content.clone();
            other.push(1);
            cms.attrs[1] = der::attr_message_digest(&keys::sha256(&other));
            cms.signature = keys::raw_sign(key, &der::attrs_to_be_signed(&cms.attrs));
        }
        Tamper::DigestLen(f) => {
            cms.attrs[1] = der::attr_message_digest(&f.value(&keys::sha256(&content)));
            cms.signature = keys::raw_sign(key, &der::attrs_to_be_signed(&cms.attrs));
            f.swap_content(&mut cms.content);
        }
        Tamper::ContentAfter => swap_content(&mut cms.content),
        Tamper::SigOtherBytes => {
            let mut a = cms.attrs.clone();
            a[2] = der::attr_signing_time(TimeEnc::new(opts.st + 1, false));
            cms.signature = keys::raw_sign(key, &der::attrs_to_be_signed(&a));
        }
        Tamper::WrongKey => {
            cms.signature = keys::raw_sign(key + 1, &der::attrs_to_be_signed(&cms.attrs));
        }
        Tamper::Sid => {
            cms.sid = keys::key_id_of_spki(&keys::pool().spki[(key + 1) % POOL_SIZE]).unwrap().to_vec();
        }
        _ => {}
    }
    let attrs_len = der::attrs_content_len(&cms.attrs);
    let bytes = match seg {
        None => {
            let mut bytes = cms.encode();
            tamper_bytes(&mut bytes, tamper)?;
            bytes
        }
        Some(s) => {
            // the segments are cut from the content as it was signed
            let lens = s.lens(content.len());
            if let Tamper::ContentFlip(f) = tamper {
                let n = cms.content.len();
                flip_in(&mut cms.content, (0, n), f)?;
                cms.encode_segmented(&lens, s.indefinite)
            } else {
                let mut bytes = cms.encode_segmented(&lens, s.indefinite);
                tamper_bytes(&mut bytes, tamper)?;
                bytes
            }
        }
    };
    Ok((bytes, attrs_len))
}

/// Self-consistency of the harness: its own verifier accepts what its writer
/// produced and notices every CMS-level tamper.
fn check_own_verifier(bytes: &[u8], tamper: Tamper) -> CheckResult {
    check_own_verifier_seg(bytes, tamper, false)
}

/// `dishonest`: the digest attribute covers only part of the segmented content.
fn check_own_verifier_seg(bytes: &[u8], tamper: Tamper, dishonest: bool) -> CheckResult {
    match der::cms_parse(bytes) {
        Ok(v) => {
            let r = v.verify();
            if dishonest {
                ensure!(r.is_err(), "harness verifier does not notice a digest over part of the segmented content");
            } else if tamper == Tamper::None || !tamper.cms_level() && !matches!(tamper, Tamper::CertTbsFlip(_)) {
                ensure!(r.is_ok(), "harness verifier rejects an object of the harness writer: {:?}", r);
            } else if tamper.cms_level() {
                ensure!(r.is_err(), "harness verifier does not notice {}", tamper.label());
            }
        }
        Err(e) => {
            ensure!(
                matches!(tamper, Tamper::AttrsFlip(_) | Tamper::CertTbsFlip(_)),
                "harness parser rejects an object of the harness writer: {}", e
            );
        }
    }
    Ok(())
}

/// The revocation check handed to `process()`: it decides by looking up the
/// serial number of the certificate it is asked about in a revocation set
/// (as every real callback does) and records which certificate that was.
struct CrlOracle {
    revoked: Vec<Serial>,
    /// (subject key identifier, serial number) of each certificate asked about
    asked: RefCell<Vec<(Vec<u8>, Serial)>>,
}

impl CrlOracle {
    /// The set always holds a serial nobody was issued; the EE certificate's
    /// if `ee_revoked`, the issuer's own if `issuer_revoked` (which says
    /// nothing about the EE certificate and must not change the verdict).
    fn new(ee_revoked: bool, issuer_revoked: bool) -> Self {
        let mut revoked: Vec<Serial> = vec![0x7fff_0001u64.into()];
        if ee_revoked {
            revoked.push(EE_SERIAL.into());
            revoked.push(BUILDER_SERIAL.into());
        }
        if issuer_revoked {
            revoked.push(TA_SERIAL.into());
        }
        CrlOracle { revoked, asked: RefCell::new(Vec::new()) }
    }

    fn callback(&self) -> impl FnOnce(&Cert) -> Result<(), ValidationError> + '_ {
        move |cert| {
            self.asked.borrow_mut().push((cert.subject_key_identifier().as_slice().to_vec(), cert.serial_number()));
            if self.revoked.contains(&cert.serial_number()) {
                Err(VerificationError::new("certificate revoked (harness callback)").into())
            } else {
                Ok(())
            }
        }
    }

    /// "The CRL callback's verdict is honoured": the callback must have been
    /// asked about the EE certificate embedded in the object (as the harness'
    /// own parser sees it) and about nothing else, and no object is accepted
    /// without having asked.
    fn check(&self, what: &str, bytes: &[u8], accepted: bool) -> CheckResult {
        let asked = self.asked.borrow();
        let ee = der::cms_parse(bytes).ok().and_then(|v| v.certs.first().and_then(|c| der::cert_parse(c).ok()));
        if let Some(ee) = &ee {
            for (ski, serial) in asked.iter() {
                let same = ee.ski.as_deref() == Some(ski.as_slice()) && Serial::from_slice(&ee.serial).ok() == Some(*serial);
                ensure_sig!(
                    same,
                    SIG_CRL_CERT,
                    "{}: the CRL callback was asked about a certificate that is not the object's EE certificate (serial {}, \
                     subject key identifier {:02x?}; the EE certificate has serial {:02x?}): the verdict on the EE certificate is never obtained",
                    what, serial, ski, ee.serial
                );
            }
        }
        if accepted {
            ensure_sig!(
                asked.len() == 1,
                SIG_CRL_CERT,
                "{}: object accepted through process() although the CRL callback was asked {} times",
                what, asked.len()
            );
        }
        Ok(())
    }
}

fn issuer_for(ee: &EeSpec, t: Tamper) -> &'static ResourceCert {
    let i = ee.issuer as usize;
    ta(if t == Tamper::OtherIssuer { i + 1 } else { i })
}

/// Is the EE window wide enough around the wall clock for `process()`?
fn window_is_wide(ee: &EeSpec) -> bool {
    ee.nb <= ymd(2021, 1, 1) && ee.na >= ymd(2044, 1, 1)
}

/// The clock-based entry points (`validate`) are `validate_at(Time::now())`:
/// asked whenever both ends of the EE window are more than a day away from
/// the present, they must give the verdict `validate_at(now)` gives.
fn far_from_now(ee: &EeSpec) -> bool {
    let now = chrono::Utc::now().timestamp();
    (ee.nb - now).abs() > 86_400 && (ee.na - now).abs() > 86_400
}

fn clock_route(what: &str, ee: &EeSpec, by_clock: Result<(), String>, at_now: Result<(), String>, obs: &mut Obs) -> CheckResult {
    if !far_from_now(ee) {
        return Ok(());
    }
    obs.label("clock-route");
    ensure_sig!(
        by_clock.is_ok() == at_now.is_ok(),
        "c02:routes-disagree",
        "{}: validate() (evaluation time = the clock) says {:?}, validate_at(Time::now()) says {:?}", what, by_clock, at_now
    );
    Ok(())
}

fn compare(
    what: &str,
    expect: bool,
    got: &Result<(), String>,
    attrs_len: usize,
    detail: &dyn Fn() -> String,
) -> CheckResult {
    if expect {
        if let Err(e) = got {
            let msg = format!(
                "{}: object meeting all conditions of the property was rejected ({}); signed attributes {} bytes; {}",
                what, e, attrs_len, detail()
            );
            if attrs_len >= 128 {
                return Err(Fail::sig(SIG_F12, msg));
            }
            return Err(Fail::new(msg));
        }
    } else {
        ensure!(got.is_err(), "{}: object violating a condition was accepted; {}", what, detail());
    }
    Ok(())
}

/// "Accepted exactly when its message-digest attribute equals the SHA-256 of
/// the content ...": of an accepted object, the SHA-256 of the content the
/// library hands out (`handed_out`; for the typed objects, whose decoded
/// values are compared field by field, the eContent as the harness' own
/// parser reads it) is the value of the message-digest attribute in the
/// object. Not applied after a bit flip inside the attributes (what is in
/// the object then is not what was signed; the verdict comparison deals
/// with it), nor to objects the harness parser cannot read.
fn check_accepted_digest(what: &str, bytes: &[u8], tamper: Tamper, handed_out: Option<&[u8]>) -> CheckResult {
    if matches!(tamper, Tamper::AttrsFlip(_)) {
        return Ok(());
    }
    let Ok(view) = der::cms_parse(bytes) else { return Ok(()) };
    let md = view.attr_values(oids::MESSAGE_DIGEST);
    if md.len() != 1 || md[0].len() != 1 {
        return Ok(());
    }
    let Ok(value) = der::parse_exact(&md[0][0]) else { return Ok(()) };
    let Some(signed) = value.prim_bytes() else { return Ok(()) };
    let content = handed_out.unwrap_or(&view.content);
    let digest = keys::sha256(content);
    ensure_sig!(
        digest.as_slice() == signed,
        SIG_ACCEPTED_DIGEST,
        "{}: object accepted although its message-digest attribute is not the SHA-256 of the content: the library hands out {} \
         octets with SHA-256 {:02x?}, the attribute says {:02x?} (eContent as the harness parser reads it: {} octets)",
        what, content.len(), digest, signed, view.content.len()
    );
    Ok(())
}

/// `compare` for objects whose eContent is BER-segmented: RFC 6488 demands
/// DER, so an object that meets all conditions may be accepted or not
/// (`optional`); one that violates a condition must still be rejected.
fn compare_seg(
    what: &str,
    expect: bool,
    optional: bool,
    got: &Result<(), String>,
    attrs_len: usize,
    detail: &dyn Fn() -> String,
) -> CheckResult {
    if expect && optional {
        return Ok(());
    }
    compare(what, expect, got, attrs_len, detail)
}

fn label_common(obs: &mut Obs, tamper: Tamper, attrs_len: usize, expect: bool, strict: bool) {
    label_common_seg(obs, tamper, attrs_len, expect, false, strict)
}

fn label_common_seg(obs: &mut Obs, tamper: Tamper, attrs_len: usize, expect: bool, optional: bool, strict: bool) {
    obs.label(tamper.label());
    obs.label_if(attrs_len >= 128, "attrs>=128");
    obs.label_if((126..=129).contains(&attrs_len), "attrs-126..129");
    obs.label_if(attrs_len >= 256, "attrs>=256");
    obs.label_if((254..=258).contains(&attrs_len), "attrs-254..258");
    obs.label_if(attrs_len == 256, "attrs=256");
    obs.label(if !expect { "expect-reject" } else if optional { "expect-either" } else { "expect-accept" });
    obs.label(if strict { "strict" } else { "relaxed" });
}

//============ sub-check: generic ==============================================

#[derive(Clone, Debug, Serialize, Deserialize)]
pub struct Generic {
    pub ct: Ct,
    pub content: Content,
    pub opts: Opts,
    pub ee: EeSpec,
    pub strict: bool,
    pub eval: Eval,
    /// Some(callback verdict): go through `SignedObject::process` (wall clock);
    /// the verdict is false iff the EE certificate's serial is in the
    /// revocation set the callback consults
    pub process: Option<bool>,
    pub tamper: Tamper,
    /// the revocation set also holds the issuer certificate's serial
    #[serde(default)]
    pub issuer_revoked: bool,
    /// eContent in BER constructed form (only with `strict == false`)
    #[serde(default)]
    pub seg: Option<Seg>,
}

fn generic_strategy(_: Tier) -> BoxedStrategy<Generic> {
    let direct = (ee_strategy(false), eval_strategy(), Just(None::<bool>)).boxed();
    let via_process = (ee_strategy(true), Just(Eval::Mid), prop::bool::weighted(0.7).prop_map(Some)).boxed();
    (
        sized_ct_strategy(),
        content_strategy(),
        prop_oneof![3 => direct, 1 => via_process],
        any::<bool>(),
        tamper_strategy(10),
        prop::bool::weighted(0.3),
        opt_seg_strategy(0.28),
    )
        .prop_map(|((ct, opts), content, (ee, eval, process), strict, tamper, issuer_revoked, seg)| Generic {
            ct, content, opts, ee, strict, eval, process, tamper, issuer_revoked,
            seg: if strict { None } else { seg },
        })
        .boxed()
}

fn run_generic(c: &Generic, obs: &mut Obs) -> CheckResult {
    let ct = c.ct.bytes();
    let content = c.content.bytes();
    // never in strict mode: DER has no constructed OCTET STRING
    let seg = if c.strict { None } else { c.seg.as_ref() };
    let dishonest = label_seg(obs, seg, &content);
    let opt_dress = label_dress(obs, &c.ee.dress);
    let (bytes, attrs_len) = assemble_seg(&ct, &content, &c.ee, c.opts, c.tamper, seg)?;
    check_own_verifier_seg(&bytes, c.tamper, dishonest)?;
    let issuer = issuer_for(&c.ee, c.tamper);
    let res_ok = validated(&c.ee).is_some();
    let via_process = c.process.is_some() && window_is_wide(&c.ee);
    let t = c.eval.time(c.ee.nb, c.ee.na);
    let in_window = via_process || (c.ee.nb <= t && t <= c.ee.na);
    let crl_ok = if via_process { c.process.unwrap_or(true) } else { true };
    let expect = c.tamper == Tamper::None && in_window && res_ok && crl_ok && !dishonest;
    let crl = CrlOracle::new(!crl_ok, c.issuer_revoked);

    // Ok: the content(s) the library hands out for the accepted object
    let got: Result<Vec<Bytes>, String> = match SignedObject::decode(bytes.as_slice(), c.strict) {
        Err(e) => Err(format!("decode: {}", e)),
        Ok(obj) => {
            let held = obj.content().to_bytes();
            if held.as_ref() != content.as_slice() && c.tamper == Tamper::None {
                return Err(Fail::new(format!(
                    "decoded content differs from the encoded content ({} octets in {} segments written, content() has {} octets)",
                    content.len(), seg.map(|s| s.segments(&content).len()).unwrap_or(1), held.len()
                )));
            }
            let pieces: Vec<u8> = obj.content().iter().flatten().copied().collect();
            ensure!(
                pieces.as_slice() == held.as_ref() && obj.content().len() == held.len(),
                "content().iter() / len() / to_bytes() of the decoded object disagree"
            );
            clock_route(
                "SignedObject",
                &c.ee,
                obj.clone().validate(issuer, c.strict).map(|_| ()).map_err(|e| e.to_string()),
                obj.clone().validate_at(issuer, c.strict, Time::now()).map(|_| ()).map_err(|e| e.to_string()),
                obs,
            )?;
            if via_process {
                obj.process(issuer, c.strict, crl.callback()).map(|(_, out)| vec![held, out]).map_err(|e| e.to_string())
            } else {
                obj.validate_at(issuer, c.strict, lib_time(t)).map(|_| vec![held]).map_err(|e| e.to_string())
            }
        }
    };
    if let Ok(handed_out) = &got {
        for out in handed_out {
            check_accepted_digest("generic", &bytes, c.tamper, Some(out.as_ref()))?;
            if c.tamper == Tamper::None {
                ensure!(out.as_ref() == content.as_slice(), "the content handed out for the accepted object is not the encoded content");
            }
        }
    }
    let got: Result<(), String> = got.map(|_| ());
    obs.label_if(seg.is_some() && expect && got.is_ok(), "seg:honest-accepted");
    label_common_seg(obs, c.tamper, attrs_len, expect, seg.is_some() || opt_dress, c.strict);
    obs.label(match c.ct { Ct::Other(_) => "ct:arbitrary", _ => "ct:registered" });
    obs.label_if(!in_window, "out-of-window");
    obs.label_if(!res_ok, "ee-overclaim");
    obs.label_if(via_process, "via-process");
    obs.label_if(via_process && !crl_ok, "crl-callback-err");
    obs.label_if(via_process && c.issuer_revoked, "crl-issuer-serial-listed");
    obs.label_if(c.tamper == Tamper::Sid && !via_process, "sid-via-validate_at");
    obs.label_if(c.tamper == Tamper::Sid && via_process, "sid-via-process");
    if via_process {
        crl.check("generic", &bytes, got.is_ok())?;
    }
    obs.label_if(c.opts.st().is_generalized(), "signing-time:generalized");
    obs.label_if(c.opts.sig_sha256rsa, "sigalg:sha256WithRSA");
    // DER SET OF order of the three attributes (depends on their sizes)
    let ct_attr = der::attr_content_type(&ct);
    let before = |other: &[u8]| der::der_set_cmp(&ct_attr, other) == std::cmp::Ordering::Less;
    obs.label(if before(&der::attr_signing_time(c.opts.st())) {
        "order:ct,st,md"
    } else if before(&der::attr_message_digest(&[0u8; 32])) {
        "order:st,ct,md"
    } else {
        "order:st,md,ct"
    });
    obs.label_if(ct.len() >= 128, "ct-oid>=128");
    obs.nontrivial_if(attrs_len >= 128 || c.tamper != Tamper::None || dishonest);
    compare_seg("generic", expect, seg.is_some() || opt_dress, &got, attrs_len, &|| {
        format!(
            "tamper={:?} eval={:?} in_window={} res_ok={} crl_ok={} strict={} segments={:?} digest-over-part={}",
            c.tamper, c.eval, in_window, res_ok, crl_ok, c.strict, seg.map(|s| s.lens(content.len())), dishonest
        )
    })
}

//============ sub-check: roa ====================================================

#[derive(Clone, Copy, Debug, Serialize, Deserialize)]
pub struct RoaP {
    pub p: Pfx,
    pub max_len: Option<u8>,
}

#[derive(Clone, Debug, Serialize, Deserialize)]
pub struct RoaCase {
    /// built with `RoaBuilder` (EE resources = the prefixes) instead of der.rs
    pub builder: bool,
    pub as_id: u32,
    pub v4: Vec<RoaP>,
    pub v6: Vec<RoaP>,
    pub ee: EeSpec,
    pub opts: Opts,
    pub strict: bool,
    /// false: the EE certificate's serial is in the callback's revocation set
    pub crl_ok: bool,
    pub tamper: Tamper,
    /// the revocation set also holds the issuer certificate's serial
    #[serde(default)]
    pub issuer_revoked: bool,
    /// eContent in BER constructed form (independent writer, `strict == false` only)
    #[serde(default)]
    pub seg: Option<Seg>,
    /// independent writer: the IPv6 family comes before the IPv4 one
    #[serde(default)]
    pub v6_first: bool,
}

/// ROA prefix drawn relative to the EE's (or issuer's) blocks.
fn derive_roa_prefix(src: &[Pfx], table: &[Pfx], fam_max: u8, raw: (u16, u8, u8, u128, Option<u8>)) -> RoaP {
    let (idx, kind, extra, rnd, ml) = raw;
    let base = if src.is_empty() || kind % 8 == 7 {
        table[pick_idx(idx, table.len())]
    } else {
        src[pick_idx(idx, src.len())]
    };
    let p = match kind % 8 {
        0 | 1 => base, // equal
        2..=4 => {
            // more specific
            let nl = base.len.saturating_add(1 + extra % 8).min(fam_max);
            let free = if base.len >= 128 { 0 } else { rnd & (u128::MAX >> base.len) };
            Pfx::new(base.bits.0 | free, nl)
        }
        5 | 6 => Pfx::new(base.bits.0, base.len.saturating_sub(1 + extra % 3)), // wider
        _ => base,
    };
    let max_len = ml.map(|d| p.len.saturating_add(d % 9).min(fam_max));
    RoaP { p, max_len }
}

fn raw_pfx() -> impl Strategy<Value = (u16, u8, u8, u128, Option<u8>)> {
    (any::<u16>(), any::<u8>(), any::<u8>(), any::<u128>(), prop::option::weighted(0.6, any::<u8>()))
}

fn roa_strategy(_: Tier) -> BoxedStrategy<RoaCase> {
    (
        prop::bool::weighted(0.35),
        dense_u32(),
        prop::collection::vec(raw_pfx(), 0..=4),
        prop::collection::vec(raw_pfx(), 0..=3),
        ee_strategy(true),
        opts_strategy(),
        any::<bool>(),
        (prop::bool::weighted(0.85), prop::bool::weighted(0.3)),
        (tamper_strategy(40), opt_seg_strategy(0.3), prop::bool::weighted(0.3)),
    )
        .prop_map(|(builder, as_id, r4, r6, mut ee, opts, strict, (crl_ok, issuer_revoked), (tamper, seg, v6_first))| {
            let seg = if strict || builder { None } else { seg };
            // the EE of a ROA has no AS resources
            ee.asn = AsRes::Missing;
            let mut ee = ee.normalize();
            if ee.asn != AsRes::Missing {
                // all missing: give it IPv4 space instead of AS inherit
                ee.asn = AsRes::Missing;
                ee.v4 = Res::Inherit;
            }
            let src = |r: &Res, ta: &[Pfx]| match r {
                Res::Blocks(b) => b.clone(),
                Res::Inherit => ta.to_vec(),
                Res::Missing => Vec::new(),
            };
            let s4 = src(&ee.v4, &v4_table(true)[..1]);
            let s6 = src(&ee.v6, &v6_table(true)[..1]);
            let mut t4 = v4_table(true);
            t4.extend(v4_table(false));
            let mut t6 = v6_table(true);
            t6.extend(v6_table(false));
            let mut v4: Vec<RoaP> = r4.into_iter().map(|r| derive_roa_prefix(&s4, &t4, 32, r)).collect();
            let mut v6: Vec<RoaP> = r6.into_iter().map(|r| derive_roa_prefix(&s6, &t6, 128, r)).collect();
            if v4.is_empty() && v6.is_empty() {
                v4.push(RoaP { p: t4[3], max_len: None });
            }
            let mut tamper = tamper;
            if builder {
                // RoaBuilder derives the EE resources from the prefixes: keep
                // them pairwise disjoint (documented domain of the builder)
                for v in [&mut v4, &mut v6] {
                    let mut keep: Vec<RoaP> = Vec::new();
                    for r in v.iter() {
                        if !keep.iter().any(|k| k.p.overlaps(r.p)) {
                            keep.push(*r);
                        }
                    }
                    *v = keep;
                }
                if !tamper.post_hoc() {
                    tamper = Tamper::None;
                }
            }
            RoaCase { builder, as_id, v4, v6, ee, opts, strict, crl_ok, tamper, issuer_revoked, seg, v6_first }
        })
        .boxed()
}

fn sigobj_builder(ee: &EeSpec, st: i64) -> SignedObjectBuilder {
    let u = rsync_uri();
    let mut b = SignedObjectBuilder::new(
        BUILDER_SERIAL.into(),
        Validity::new(lib_time(ee.nb), lib_time(ee.na)),
        u.clone(),
        u.clone(),
        u,
    );
    b.set_signing_time(lib_time(st));
    b
}

/// Reverse differential: a library-built object must verify with the
/// harness' own CMS verifier. Returns the signed-attribute size.
fn verify_library_built(bytes: &[u8], issuer: usize) -> Result<usize, Fail> {
    let view = der::cms_parse(bytes)
        .map_err(|e| Fail::new(format!("library-built object not parseable by the harness DER parser: {}", e)))?;
    let attrs_len = view.attrs_raw.len();
    // the attributes must already be in DER SET OF order
    let mut sorted = view.attrs.clone();
    der::sort_set_of(&mut sorted);
    ensure!(sorted == view.attrs, "library-built object: signed attributes are not in DER SET OF order");
    if let Err(e) = view.verify() {
        let msg = format!(
            "library-built object does not verify with an independent verifier: {} (signed attributes {} bytes)",
            e, attrs_len
        );
        if attrs_len >= 128 {
            return Err(Fail::sig(SIG_F12, msg));
        }
        return Err(Fail::new(msg));
    }
    let cert = der::cert_parse(&view.certs[0]).map_err(Fail::new)?;
    ensure!(cert.signed_by(issuer), "library-built object: EE certificate not signed by the issuer key");
    Ok(attrs_len)
}

fn run_roa(c: &RoaCase, obs: &mut Obs) -> CheckResult {
    let issuer_idx = c.ee.issuer as usize % POOL_SIZE;
    let mut all: Vec<(bool, RoaP)> = c.v4.iter().map(|r| (false, *r)).collect();
    all.extend(c.v6.iter().map(|r| (true, *r)));
    let seg = if c.strict || c.builder { None } else { c.seg.as_ref() };
    let mut dishonest = false;
    let mut opt_dress = false;
    let (bytes, attrs_len, val) = if c.builder {
        let mut b = RoaBuilder::new(Asn::from_u32(c.as_id));
        for r in &c.v4 {
            b.push_v4(rpki::repository::roa::RoaIpAddress::new(Prefix::new(r.p.bits.0, r.p.len), r.max_len));
        }
        for r in &c.v6 {
            b.push_v6(rpki::repository::roa::RoaIpAddress::new(Prefix::new(r.p.bits.0, r.p.len), r.max_len));
        }
        let signer = PoolSigner::with_first(c.ee.key as usize, 0);
        let roa = b
            .finalize(sigobj_builder(&c.ee, c.opts.st), &signer, &signer.key(issuer_idx))
            .map_err(|e| Fail::new(format!("RoaBuilder::finalize failed: {}", e)))?;
        let mut bytes = roa.to_captured().into_bytes().to_vec();
        let attrs_len = verify_library_built(&bytes, issuer_idx)?;
        tamper_built(&mut bytes, c.tamper)?;
        // EE resources are exactly the prefixes, Refuse policy
        let spec = EeSpec {
            v4: if c.v4.is_empty() { Res::Missing } else { Res::Blocks(c.v4.iter().map(|r| r.p).collect()) },
            v6: if c.v6.is_empty() { Res::Missing } else { Res::Blocks(c.v6.iter().map(|r| r.p).collect()) },
            asn: AsRes::Missing,
            trim: false,
            ..c.ee.clone()
        };
        (bytes, attrs_len, validated(&spec))
    } else {
        let v4: Vec<RoaPfx> = c.v4.iter().map(|r| RoaPfx { bits: r.p.bits.0, len: r.p.len, max_len: r.max_len }).collect();
        let v6: Vec<RoaPfx> = c.v6.iter().map(|r| RoaPfx { bits: r.p.bits.0, len: r.p.len, max_len: r.max_len }).collect();
        let content = der::roa_content_ordered(c.as_id, &v4, &v6, false, c.v6_first);
        obs.label_if(c.v6_first && !v4.is_empty() && !v6.is_empty(), "roa-ipv6-family-first");
        opt_dress = label_dress(obs, &c.ee.dress);
        dishonest = label_seg(obs, seg, &content);
        let (bytes, attrs_len) = assemble_seg(oids::CT_ROA, &content, &c.ee, c.opts, c.tamper, seg)?;
        check_own_verifier_seg(&bytes, c.tamper, dishonest)?;
        (bytes, attrs_len, validated(&c.ee))
    };
    let wide = window_is_wide(&c.ee);
    ensure!(wide, "harness: ROA case without a wide validity window");
    let covered = match &val {
        None => false,
        Some(v) => all.iter().all(|(v6, r)| within((r.p.min(), r.p.max()), if *v6 { &v.v6 } else { &v.v4 })),
    };
    let expect = c.tamper == Tamper::None && val.is_some() && covered && c.crl_ok && !dishonest;
    let issuer = issuer_for(&c.ee, c.tamper);
    let crl = CrlOracle::new(!c.crl_ok, c.issuer_revoked);
    let got: Result<(), String> = match Roa::decode(bytes.as_slice(), c.strict) {
        Err(e) => Err(format!("decode: {}", e)),
        Ok(roa) => match roa.process(issuer, c.strict, crl.callback()) {
            Err(e) => Err(e.to_string()),
            Ok((_, att)) => {
                // the accepted attestation carries exactly the encoded prefixes
                let got: Vec<(bool, u128, u8, u8)> = att
                    .iter()
                    .map(|a| (!a.is_v4(), a.prefix().addr().to_bits(), a.address_length(), a.max_length()))
                    .collect();
                let exp: Vec<(bool, u128, u8, u8)> =
                    all.iter().map(|(v6, r)| (*v6, r.p.min(), r.p.len, r.max_len.unwrap_or(r.p.len))).collect();
                // as sets: for builder-made ROAs the order (and repetition) of the
                // entries is the builder's choice; the statement speaks of "every
                // ROA prefix", i.e. of the set
                let canon = |mut v: Vec<(bool, u128, u8, u8)>| {
                    v.sort();
                    v.dedup();
                    v
                };
                ensure_eq!(canon(got), canon(exp), "prefixes of the accepted ROA (as a set)");
                ensure_eq!(att.as_id().into_u32(), c.as_id, "AS of the accepted ROA");
                check_accepted_digest("roa", &bytes, c.tamper, None)?;
                Ok(())
            }
        },
    };
    obs.label_if(seg.is_some() && expect && got.is_ok(), "seg:honest-accepted");
    label_common_seg(obs, c.tamper, attrs_len, expect, seg.is_some() || opt_dress, c.strict);
    obs.label(if c.builder { "writer:RoaBuilder" } else { "writer:der.rs" });
    obs.label_if(val.is_none(), "ee-overclaim");
    obs.label_if(val.is_some() && !covered, "uncovered-prefix");
    obs.label_if(val.is_some() && covered, "all-covered");
    obs.label_if(!c.crl_ok, "crl-callback-err");
    obs.label_if(c.issuer_revoked, "crl-issuer-serial-listed");
    obs.label_if(c.ee.trim, "ee-trim");
    crl.check("roa", &bytes, got.is_ok())?;
    obs.nontrivial_if(all.len() >= 2 || c.tamper != Tamper::None || attrs_len >= 128 || dishonest);
    compare_seg("roa", expect, seg.is_some() || opt_dress, &got, attrs_len, &|| {
        format!(
            "tamper={:?} ee_ok={} covered={} crl_ok={} digest-over-part-of-segments={} validated={:?}",
            c.tamper, val.is_some(), covered, c.crl_ok, dishonest, val
        )
    })
}

//============ sub-check: aspa ===================================================

#[derive(Clone, Debug, Serialize, Deserialize)]
pub struct AspaCase {
    pub builder: bool,
    pub customer: u32,
    pub providers: Vec<u32>,
    pub ee: EeSpec,
    pub opts: Opts,
    pub strict: bool,
    /// false: the EE certificate's serial is in the callback's revocation set
    pub crl_ok: bool,
    pub tamper: Tamper,
    /// the revocation set also holds the issuer certificate's serial
    #[serde(default)]
    pub issuer_revoked: bool,
    /// eContent in BER constructed form (independent writer, `strict == false` only)
    #[serde(default)]
    pub seg: Option<Seg>,
}

fn aspa_strategy(_: Tier) -> BoxedStrategy<AspaCase> {
    let customer = prop_oneof![
        6 => prop::sample::select(vec![64496u32, 64500, 64511, 65000, 65005, 65010]),
        3 => prop::sample::select(vec![64495u32, 64512, 0, u32::MAX, 65011, 64999]),
        1 => dense_u32(),
    ];
    // EE for an ASPA: mostly AS blocks only; sometimes with IP resources or inheritance
    // (k = 10: IP extensions present but trimmed to nothing under the issuer)
    let ee = (ee_strategy(true), 0u8..11).prop_map(|(mut ee, k)| {
        if k < 7 {
            ee.v4 = Res::Missing;
            ee.v6 = Res::Missing;
        }
        if k == 10 {
            ee.trim = true;
            ee.v4 = Res::Blocks(vec![v4_table(false)[ee.key as usize % 2 * 6]]);
            ee.v6 = if ee.issuer % 2 == 0 { Res::Missing } else { Res::Blocks(vec![v6_table(false)[1]]) };
        }
        if k < 6 && !matches!(ee.asn, AsRes::Blocks(_)) {
            ee.asn = AsRes::Blocks(vec![AS_IN[(k % 4) as usize]]);
        }
        ee.normalize()
    });
    (
        prop::bool::weighted(0.3),
        customer,
        prop::collection::btree_set(prop_oneof![3 => 1u32..70000, 1 => dense_u32()], 1..6),
        ee,
        opts_strategy(),
        any::<bool>(),
        (prop::bool::weighted(0.85), prop::bool::weighted(0.3)),
        (tamper_strategy(40), opt_seg_strategy(0.3)),
    )
        .prop_map(|(builder, customer, providers, ee, opts, strict, (crl_ok, issuer_revoked), (tamper, seg))| {
            let seg = if strict || builder { None } else { seg };
            let mut providers: Vec<u32> = providers.into_iter().filter(|&p| p != customer).collect();
            if providers.is_empty() {
                providers.push(customer.wrapping_add(1));
            }
            providers.sort_unstable();
            let tamper = if builder && !tamper.post_hoc() { Tamper::None } else { tamper };
            AspaCase { builder, customer, providers, ee, opts, strict, crl_ok, tamper, issuer_revoked, seg }
        })
        .boxed()
}

fn run_aspa(c: &AspaCase, obs: &mut Obs) -> CheckResult {
    let issuer_idx = c.ee.issuer as usize % POOL_SIZE;
    let seg = if c.strict || c.builder { None } else { c.seg.as_ref() };
    let mut dishonest = false;
    let opt_dress = !c.builder && label_dress(obs, &c.ee.dress);
    let (bytes, attrs_len, spec) = if c.builder {
        let b = AspaBuilder::new(Asn::from_u32(c.customer), c.providers.iter().map(|&p| Asn::from_u32(p)).collect::<Vec<_>>())
            .map_err(|e| Fail::new(format!("AspaBuilder::new: {}", e)))?;
        let signer = PoolSigner::with_first(c.ee.key as usize, 0);
        let aspa = b
            .finalize(sigobj_builder(&c.ee, c.opts.st), &signer, &signer.key(issuer_idx))
            .map_err(|e| Fail::new(format!("AspaBuilder::finalize failed: {}", e)))?;
        let mut bytes = aspa.to_captured().into_bytes().to_vec();
        let attrs_len = verify_library_built(&bytes, issuer_idx)?;
        tamper_built(&mut bytes, c.tamper)?;
        let spec = EeSpec {
            v4: Res::Missing,
            v6: Res::Missing,
            asn: AsRes::Blocks(vec![(c.customer, c.customer)]),
            trim: false,
            ..c.ee.clone()
        };
        (bytes, attrs_len, spec)
    } else {
        let content = der::aspa_content(c.customer, &c.providers);
        dishonest = label_seg(obs, seg, &content);
        let (bytes, attrs_len) = assemble_seg(oids::CT_ASPA, &content, &c.ee, c.opts, c.tamper, seg)?;
        check_own_verifier_seg(&bytes, c.tamper, dishonest)?;
        (bytes, attrs_len, c.ee.clone())
    };
    ensure!(window_is_wide(&c.ee), "harness: ASPA case without a wide validity window");
    let val = validated(&spec);
    let customer_in = val.as_ref().map(|v| within((c.customer as u128, c.customer as u128), &v.asn)).unwrap_or(false);
    let no_ip = spec.v4 == Res::Missing && spec.v6 == Res::Missing;
    let no_inherit = spec.asn != AsRes::Inherit;
    let expect = c.tamper == Tamper::None && val.is_some() && customer_in && no_ip && no_inherit && c.crl_ok && !dishonest;
    let issuer = issuer_for(&c.ee, c.tamper);
    let crl = CrlOracle::new(!c.crl_ok, c.issuer_revoked);
    let got: Result<(), String> = match Aspa::decode(bytes.as_slice(), c.strict) {
        Err(e) => Err(format!("decode: {}", e)),
        Ok(aspa) => match aspa.process(issuer, c.strict, crl.callback()) {
            Err(e) => Err(e.to_string()),
            Ok((_, att)) => {
                ensure_eq!(att.customer_as().into_u32(), c.customer, "customer of the accepted ASPA");
                let prov: Vec<u32> = att.provider_as_set().iter().map(|a| a.into_u32()).collect();
                ensure_eq!(prov, c.providers, "providers of the accepted ASPA");
                check_accepted_digest("aspa", &bytes, c.tamper, None)?;
                Ok(())
            }
        },
    };
    obs.label_if(seg.is_some() && expect && got.is_ok(), "seg:honest-accepted");
    label_common_seg(obs, c.tamper, attrs_len, expect, seg.is_some() || opt_dress, c.strict);
    obs.label(if c.builder { "writer:AspaBuilder" } else { "writer:der.rs" });
    obs.label_if(val.is_none(), "ee-overclaim");
    obs.label_if(val.is_some() && !customer_in, "customer-outside");
    obs.label_if(!no_ip, "ee-has-ip");
    obs.label_if(!no_ip && val.as_ref().map(|v| v.v4.is_empty() && v.v6.is_empty()).unwrap_or(false), "ee-ip-trimmed-to-nothing");
    obs.label_if(!no_inherit, "ee-as-inherit");
    obs.label_if(!c.crl_ok, "crl-callback-err");
    obs.label_if(c.issuer_revoked, "crl-issuer-serial-listed");
    crl.check("aspa", &bytes, got.is_ok())?;
    obs.nontrivial_if(c.providers.len() >= 2 || c.tamper != Tamper::None || attrs_len >= 128 || dishonest);
    compare_seg("aspa", expect, seg.is_some() || opt_dress, &got, attrs_len, &|| {
        format!(
            "tamper={:?} ee_ok={} customer_in={} no_ip={} no_inherit={} crl_ok={} digest-over-part-of-segments={}",
            c.tamper, val.is_some(), customer_in, no_ip, no_inherit, c.crl_ok, dishonest
        )
    })
}

//============ sub-check: manifest ================================================

#[derive(Clone, Debug, Serialize, Deserialize)]
pub struct MftCase {
    pub builder: bool,
    pub number: u64,
    pub this_update: i64,
    pub next_update: i64,
    /// (file name, seed of the 32-byte hash)
    pub entries: Vec<(String, u8)>,
    pub ee: EeSpec,
    pub opts: Opts,
    pub strict: bool,
    pub eval: Eval,
    pub tamper: Tamper,
    /// eContent in BER constructed form (independent writer, `strict == false` only)
    #[serde(default)]
    pub seg: Option<Seg>,
}

fn mft_strategy(_: Tier) -> BoxedStrategy<MftCase> {
    let name = ("[A-Za-z0-9_-]{1,12}", prop::sample::select(vec!["cer", "roa", "crl", "mft", "asa", "gbr", "ABC"]))
        .prop_map(|(b, e)| format!("{}.{}", b, e));
    (
        prop::bool::weighted(0.4),
        any::<u64>(),
        ymd(2024, 1, 1)..ymd(2060, 1, 1),
        0i64..400 * 86_400,
        prop::collection::vec((name, any::<u8>()), 0..6),
        ee_strategy(false),
        opts_strategy(),
        any::<bool>(),
        eval_strategy(),
        (tamper_strategy(30), opt_seg_strategy(0.3)),
    )
        .prop_map(|(builder, number, this_update, d, entries, mut ee, opts, strict, eval, (tamper, seg))| {
            let seg = if strict || builder { None } else { seg };
            // RFC 9286: manifest EE certificates inherit
            ee.v4 = Res::Inherit;
            ee.v6 = Res::Inherit;
            ee.asn = AsRes::Inherit;
            let tamper = if builder && !tamper.post_hoc() { Tamper::None } else { tamper };
            MftCase { builder, number, this_update, next_update: this_update + d, entries, ee: ee.normalize(), opts, strict, eval, tamper, seg }
        })
        .boxed()
}

fn hash_of_seed(seed: u8) -> [u8; 32] {
    keys::sha256(&[seed])
}

fn run_mft(c: &MftCase, obs: &mut Obs) -> CheckResult {
    let issuer_idx = c.ee.issuer as usize % POOL_SIZE;
    let seg = if c.strict || c.builder { None } else { c.seg.as_ref() };
    let mut dishonest = false;
    let opt_dress = !c.builder && label_dress(obs, &c.ee.dress);
    let (bytes, attrs_len) = if c.builder {
        let content = ManifestContent::new(
            c.number.into(),
            lib_time(c.this_update),
            lib_time(c.next_update),
            DigestAlgorithm::default(),
            c.entries.iter().map(|(n, s)| FileAndHash::new(Bytes::from(n.clone().into_bytes()), Bytes::copy_from_slice(&hash_of_seed(*s)))),
        );
        let signer = PoolSigner::with_first(c.ee.key as usize, 0);
        let m = content
            .into_manifest(sigobj_builder(&c.ee, c.opts.st), &signer, &signer.key(issuer_idx))
            .map_err(|e| Fail::new(format!("into_manifest failed: {}", e)))?;
        let mut bytes = m.to_captured().into_bytes().to_vec();
        let attrs_len = verify_library_built(&bytes, issuer_idx)?;
        tamper_built(&mut bytes, c.tamper)?;
        (bytes, attrs_len)
    } else {
        let entries: Vec<der::MftEntry> = c
            .entries
            .iter()
            .map(|(n, s)| der::MftEntry { name: n.clone().into_bytes(), hash: hash_of_seed(*s).to_vec(), unused: 0 })
            .collect();
        let content = der::manifest_content(
            &c.number.to_be_bytes(),
            TimeEnc::new(c.this_update, true),
            TimeEnc::new(c.next_update, true),
            &entries,
            false,
        );
        dishonest = label_seg(obs, seg, &content);
        let (bytes, attrs_len) = assemble_seg(oids::CT_MFT, &content, &c.ee, c.opts, c.tamper, seg)?;
        check_own_verifier_seg(&bytes, c.tamper, dishonest)?;
        (bytes, attrs_len)
    };
    let t = c.eval.time(c.ee.nb, c.ee.na);
    let in_window = c.ee.nb <= t && t <= c.ee.na;
    let expect = c.tamper == Tamper::None && in_window && !dishonest;
    let issuer = issuer_for(&c.ee, c.tamper);
    let got: Result<(), String> = match Manifest::decode(bytes.as_slice(), c.strict) {
        Err(e) => Err(format!("decode: {}", e)),
        Ok(m) => match {
            clock_route(
                "Manifest",
                &c.ee,
                m.clone().validate(issuer, c.strict).map(|_| ()).map_err(|e| e.to_string()),
                m.clone().validate_at(issuer, c.strict, Time::now()).map(|_| ()).map_err(|e| e.to_string()),
                obs,
            )?;
            m.validate_at(issuer, c.strict, lib_time(t))
        } {
            Err(e) => Err(e.to_string()),
            Ok((_, content)) => {
                let got: Vec<(Vec<u8>, Vec<u8>)> = content.iter().map(|f| { let (n, h) = f.into_pair(); (n.to_vec(), h.to_vec()) }).collect();
                let exp: Vec<(Vec<u8>, Vec<u8>)> =
                    c.entries.iter().map(|(n, s)| (n.clone().into_bytes(), hash_of_seed(*s).to_vec())).collect();
                ensure_eq!(got, exp, "entries of the accepted manifest");
                ensure_eq!(content.len(), c.entries.len(), "len() of the accepted manifest");
                check_accepted_digest("manifest", &bytes, c.tamper, None)?;
                Ok(())
            }
        },
    };
    obs.label_if(seg.is_some() && expect && got.is_ok(), "seg:honest-accepted");
    label_common_seg(obs, c.tamper, attrs_len, expect, seg.is_some() || opt_dress, c.strict);
    obs.label(if c.builder { "writer:into_manifest" } else { "writer:der.rs" });
    obs.label_if(!in_window, "out-of-window");
    obs.nontrivial_if(c.entries.len() >= 2 || c.tamper != Tamper::None || dishonest);
    compare_seg("manifest", expect, seg.is_some() || opt_dress, &got, attrs_len, &|| {
        format!("tamper={:?} eval={:?} in_window={} digest-over-part-of-segments={}", c.tamper, c.eval, in_window, dishonest)
    })
}

//============ sub-check: built (SignedObjectBuilder, arbitrary content type) ====

#[derive(Clone, Debug, Serialize, Deserialize)]
pub struct BuiltCase {
    pub ct: Ct,
    pub content: Content,
    pub ee: EeSpec,
    pub st: i64,
    pub strict: bool,
    pub eval: Eval,
    pub tamper: Tamper,
}

fn built_strategy(_: Tier) -> BoxedStrategy<BuiltCase> {
    (sized_ct_strategy(), content_strategy(), ee_strategy(false), any::<bool>(), eval_strategy(), post_hoc_tamper_strategy(15))
        .prop_map(|((ct, opts), content, ee, strict, eval, tamper)| BuiltCase { ct, content, ee, st: opts.st, strict, eval, tamper })
        .boxed()
}

fn run_built(c: &BuiltCase, obs: &mut Obs) -> CheckResult {
    let issuer_idx = c.ee.issuer as usize % POOL_SIZE;
    let mut b = sigobj_builder(&c.ee, c.st);
    match &c.ee.v4 {
        Res::Missing => {}
        Res::Inherit => b.set_v4_resources_inherit(),
        Res::Blocks(bl) => b.build_v4_resource_blocks(|bb| bl.iter().for_each(|p| bb.push(Prefix::new(p.bits.0, p.len)))),
    }
    match &c.ee.v6 {
        Res::Missing => {}
        Res::Inherit => b.set_v6_resources_inherit(),
        Res::Blocks(bl) => b.build_v6_resource_blocks(|bb| bl.iter().for_each(|p| bb.push(Prefix::new(p.bits.0, p.len)))),
    }
    match &c.ee.asn {
        AsRes::Missing => {}
        AsRes::Inherit => b.set_as_resources_inherit(),
        AsRes::Blocks(bl) => {
            b.build_as_resource_blocks(|bb| bl.iter().for_each(|&(lo, hi)| bb.push((Asn::from_u32(lo), Asn::from_u32(hi)))))
        }
    }
    let signer = PoolSigner::with_first(c.ee.key as usize, 0);
    let content = c.content.bytes();
    let obj = b
        .finalize(Oid(Bytes::from(c.ct.bytes())), Bytes::from(content.clone()), &signer, &signer.key(issuer_idx))
        .map_err(|e| Fail::new(format!("SignedObjectBuilder::finalize failed: {}", e)))?;
    let mut bytes = obj.encode_ref().to_captured(Mode::Der).into_bytes().to_vec();
    // the builder signs under the Refuse policy
    let spec = EeSpec { trim: false, ..c.ee.clone() };
    let attrs_len = verify_library_built(&bytes, issuer_idx)?;
    tamper_built(&mut bytes, c.tamper)?;
    let res_ok = validated(&spec).is_some();
    let t = c.eval.time(c.ee.nb, c.ee.na);
    let in_window = c.ee.nb <= t && t <= c.ee.na;
    let expect = c.tamper == Tamper::None && in_window && res_ok;
    let issuer = issuer_for(&c.ee, c.tamper);
    let got: Result<Bytes, String> = match SignedObject::decode(bytes.as_slice(), c.strict) {
        Err(e) => Err(format!("decode: {}", e)),
        Ok(o) => {
            let held = o.content().to_bytes();
            o.validate_at(issuer, c.strict, lib_time(t)).map(|_| held).map_err(|e| e.to_string())
        }
    };
    if let Ok(held) = &got {
        check_accepted_digest("built", &bytes, c.tamper, Some(held.as_ref()))?;
    }
    let got: Result<(), String> = got.map(|_| ());
    label_common(obs, c.tamper, attrs_len, expect, c.strict);
    obs.label_if(!in_window, "out-of-window");
    obs.label_if(!res_ok, "ee-overclaim");
    obs.nontrivial_if(attrs_len >= 128 || c.tamper != Tamper::None);
    compare("built", expect, &got, attrs_len, &|| format!("tamper={:?} eval={:?} in_window={} res_ok={}", c.tamper, c.eval, in_window, res_ok))
}

//============ sub-check: toolkit self test ======================================

#[derive(Clone, Debug, Serialize, Deserialize)]
pub struct Unit {
    pub idx: u64,
}

fn run_selfcheck(_: &Unit, obs: &mut Obs) -> CheckResult {
    obs.nontrivial();
    der::selfcheck().map_err(|e| Fail::new(format!("der.rs self check failed: {}", e)))
}

const TAMPER_FLOORS: &[(&str, f64)] = &[
    ("tamper:digest-attr", 0.02),
    ("tamper:content-after", 0.02),
    ("tamper:sig-other-bytes", 0.02),
    ("tamper:wrong-key", 0.02),
    ("tamper:sid", 0.02),
    ("tamper:sig-flip", 0.02),
    ("tamper:attrs-flip", 0.02),
    ("tamper:content-flip", 0.02),
    ("tamper:cert-tbs-flip", 0.02),
    ("tamper:ee-wrong-signer", 0.02),
    ("tamper:ee-aki", 0.02),
    ("tamper:other-issuer", 0.02),
    ("tamper:digest-short", 0.025),
    ("tamper:digest-long", 0.018),
    ("tamper:digest-empty-swap", 0.012),
    ("sid-via-validate_at", 0.012),
    ("sid-via-process", 0.004),
    ("attrs>=128", 0.25),
    ("attrs-126..129", 0.06),
    ("attrs>=256", 0.12),
    ("attrs-254..258", 0.06),
    ("attrs=256", 0.012),
    ("ct-oid>=128", 0.15),
    ("crl-issuer-serial-listed", 0.03),
    ("expect-accept", 0.10),
    ("out-of-window", 0.08),
    ("ee-overclaim", 0.04),
    ("crl-callback-err", 0.02),
    ("signing-time:generalized", 0.15),
    ("order:st,md,ct", 0.1),
    ("order:st,ct,md", 0.1),
    ("order:ct,st,md", 0.05),
    // BER-segmented eContent: shares of all cases (half of them are relaxed)
    ("seg", 0.06),
    ("seg:honest", 0.03),
    ("seg:honest-empty-before-data", 0.015),
    ("seg:dishonest", 0.03),
    ("seg:digest-before-empty", 0.015),
    ("seg:digest-prefix", 0.01),
    ("seg:digest-suffix", 0.004),
    ("seg:>=3-segments", 0.05),
    ("seg:indefinite", 0.01),
];

/// Floors of the typed sub-checks for BER-segmented eContent (independent
/// writer, relaxed decoding).
const SEG: (&str, f64) = ("seg", 0.04);
const SEG_DISHONEST: (&str, f64) = ("seg:dishonest", 0.02);
const SEG_BEFORE_EMPTY: (&str, f64) = ("seg:digest-before-empty", 0.008);

pub fn property() -> Property {
    Property {
        id: "C02",
        rule: RULE,
        assumptions: vec![
            "RSA PKCS#1 v1.5 / SHA-256 of aws-lc-rs (used directly by the harness) is correct; any change of a signed byte or of the signature value must be rejected",
            "EE and trust-anchor certificates are built with the library's TbsCert (their validation is property C01)",
            "Roa::process / Aspa::process / SignedObject::process read the wall clock: those cases use EE validity 2020-01-01..2045-01-01",
            "acceptance is only demanded for RFC-conformant encodings (DER, attributes in SET OF order, signing time UTCTime through 2049); an object whose eContent is a BER constructed OCTET STRING may be accepted or rejected in relaxed mode, but it must be rejected if any condition of the property is violated, and what is handed out for an accepted one is the concatenation of its segments",
        ],
        subs: vec![
            EnumSub { name: "der-selfcheck", count: |_, _| 1, make: |_, _, idx| Unit { idx }, run: run_selfcheck, exhaustive: false }.boxed(),
            PropSub {
                name: "generic",
                strategy: generic_strategy,
                cases: |t| t.pick(150_000, 1_200_000),
                run: run_generic,
                floors: TAMPER_FLOORS,
            }
            .boxed(),
            PropSub {
                name: "roa",
                strategy: roa_strategy,
                cases: |t| t.pick(90_000, 700_000),
                run: run_roa,
                floors: &[
                    ("writer:RoaBuilder", 0.15),
                    ("writer:der.rs", 0.3),
                    ("uncovered-prefix", 0.1),
                    ("all-covered", 0.15),
                    ("expect-accept", 0.08),
                    ("crl-callback-err", 0.05),
                    ("crl-issuer-serial-listed", 0.12),
                    ("ee-overclaim", 0.03),
                    ("ee-trim", 0.08),
                    ("tamper:digest-short", 0.01),
                    ("tamper:digest-long", 0.008),
                    SEG,
                    SEG_DISHONEST,
                    SEG_BEFORE_EMPTY,
                ],
            }
            .boxed(),
            PropSub {
                name: "aspa",
                strategy: aspa_strategy,
                cases: |t| t.pick(72_000, 500_000),
                run: run_aspa,
                floors: &[
                    ("writer:AspaBuilder", 0.12),
                    ("customer-outside", 0.1),
                    ("ee-has-ip", 0.08),
                    ("ee-ip-trimmed-to-nothing", 0.03),
                    ("ee-as-inherit", 0.02),
                    ("expect-accept", 0.09),
                    ("crl-callback-err", 0.05),
                    ("crl-issuer-serial-listed", 0.12),
                    ("tamper:digest-short", 0.01),
                    ("tamper:digest-long", 0.008),
                    SEG,
                    SEG_DISHONEST,
                    SEG_BEFORE_EMPTY,
                ],
            }
            .boxed(),
            PropSub {
                name: "manifest",
                strategy: mft_strategy,
                cases: |t| t.pick(48_000, 300_000),
                run: run_mft,
                floors: &[
                    ("writer:into_manifest", 0.2),
                    ("expect-accept", 0.2),
                    ("out-of-window", 0.08),
                    ("tamper:sid", 0.006),
                    ("tamper:digest-short", 0.012),
                    ("tamper:digest-long", 0.01),
                    SEG,
                    SEG_DISHONEST,
                    SEG_BEFORE_EMPTY,
                ],
            }
            .boxed(),
            PropSub {
                name: "built",
                strategy: built_strategy,
                cases: |t| t.pick(72_000, 500_000),
                run: run_built,
                floors: &[
                    ("attrs>=128", 0.25),
                    ("attrs-126..129", 0.07),
                    ("attrs>=256", 0.12),
                    ("attrs-254..258", 0.07),
                    ("attrs=256", 0.012),
                    ("tamper:digest-short", 0.018),
                    ("tamper:digest-long", 0.012),
                    ("expect-accept", 0.15),
                    ("out-of-window", 0.08),
                ],
            }
            .boxed(),
        ],
    }
}
