//! C02 — stub (not built yet).

use crate::engine::*;

pub fn property() -> Property {
    Property { id: "C02", rule: "", assumptions: vec![], subs: vec![] }
}
