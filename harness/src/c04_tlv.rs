//! Lenient BER/DER TLV scanner and structure-aware mutation operators.
//!
//! Private helper of C04 (and, through `#[path]`, of the `der_decoders` fuzz
//! target's custom mutator). Depends on `std` only. Nothing here is trusted
//! for verdicts: it only produces inputs.
//!
//! The scanner turns a byte string into a flat list of nodes in document
//! order (no recursion, bounded depth). It descends into constructed values
//! and into OCTET STRING / BIT STRING values whose content is itself a
//! well-formed run of TLVs (extension values, eContent, key bits), so that
//! RFC 3779 extensions and signed-object payloads are reachable. Mutations
//! are byte splices followed by an optional fix-up of the length fields of
//! all ancestors, so a "structure-preserving" mutation stays decodable above
//! the mutated spot.

#![allow(dead_code)]

#[derive(Clone, Copy, Debug)]
pub struct Node {
    /// offset of the first tag octet
    pub start: usize,
    /// length of tag + length octets
    pub hdr: usize,
    /// number of tag octets
    pub tag_len: usize,
    /// content length actually available (clamped to the parent)
    pub len: usize,
    /// first tag octet
    pub tag: u8,
    pub depth: u16,
    /// index of the parent node, usize::MAX for top level
    pub parent: usize,
    /// length octets are the indefinite form
    pub indefinite: bool,
    /// announced length did not fit (or was unparsable)
    pub bad_len: bool,
    /// scanner descended into this node
    pub container: bool,
    /// number of leading content octets that are not TLVs (BIT STRING: 1)
    pub skip: usize,
}

impl Node {
    pub fn content(&self) -> usize {
        self.start + self.hdr
    }
    pub fn end(&self) -> usize {
        self.start + self.hdr + self.len
    }
    pub fn total(&self) -> usize {
        self.hdr + self.len
    }
}

pub const MAX_NODES: usize = 20_000;
const MAX_DEPTH: usize = 48;

/// Reads tag and length octets at `pos` (must be < end). Returns
/// (tag_len, hdr_len, announced content length or None for indefinite, bad).
fn read_header(d: &[u8], pos: usize, end: usize) -> (usize, usize, Option<usize>, bool) {
    let mut p = pos + 1;
    if d[pos] & 0x1f == 0x1f {
        let mut n = 0;
        while p < end && n < 4 {
            let b = d[p];
            p += 1;
            n += 1;
            if b & 0x80 == 0 {
                break;
            }
        }
    }
    let tag_len = p - pos;
    if p >= end {
        return (tag_len, p - pos, Some(0), true);
    }
    let l0 = d[p];
    p += 1;
    if l0 < 0x80 {
        let l = l0 as usize;
        if l > end - p {
            return (tag_len, p - pos, Some(end - p), true);
        }
        return (tag_len, p - pos, Some(l), false);
    }
    if l0 == 0x80 {
        return (tag_len, p - pos, None, false);
    }
    let n = (l0 & 0x7f) as usize;
    if n > 8 || p + n > end {
        return (tag_len, (p - pos).min(end - pos), Some(0), true);
    }
    let mut l: u64 = 0;
    for i in 0..n {
        l = (l << 8) | d[p + i] as u64;
    }
    p += n;
    if l > (end - p) as u64 {
        return (tag_len, p - pos, Some(end - p), true);
    }
    (tag_len, p - pos, Some(l as usize), false)
}

/// Does `c` look like a run of definite-length TLVs filling it exactly?
fn fills_exactly(c: &[u8]) -> bool {
    if c.len() < 2 {
        return false;
    }
    match c[0] {
        0x30 | 0x31 | 0x02 | 0x03 | 0x04 | 0x05 | 0x06 | 0x0c | 0x13 | 0x16 | 0x17 | 0x18 | 0xa0..=0xa3 => {}
        _ => return false,
    }
    let mut p = 0;
    let mut n = 0;
    while p < c.len() {
        let (_, hdr, len, bad) = read_header(c, p, c.len());
        let Some(len) = len else { return false };
        if bad {
            return false;
        }
        p += hdr + len;
        n += 1;
        if n > 4096 {
            return false;
        }
    }
    p == c.len()
}

/// Scans `d` into a flat node list (document order).
pub fn scan(d: &[u8]) -> Vec<Node> {
    let mut nodes: Vec<Node> = Vec::new();
    // stack of (node index, end offset, indefinite)
    let mut stack: Vec<(usize, usize, bool)> = Vec::new();
    let mut pos = 0usize;
    let total = d.len();
    loop {
        // close finished containers
        while let Some(&(idx, end, indef)) = stack.last() {
            if indef {
                if pos + 2 <= end && d[pos] == 0 && d[pos + 1] == 0 {
                    nodes[idx].len = pos - nodes[idx].content();
                    pos += 2;
                    stack.pop();
                    continue;
                }
                if pos >= end {
                    nodes[idx].len = end - nodes[idx].content();
                    stack.pop();
                    continue;
                }
                break;
            }
            if pos >= end {
                pos = end;
                stack.pop();
                continue;
            }
            break;
        }
        let end = stack.last().map(|s| s.1).unwrap_or(total);
        if pos >= end || nodes.len() >= MAX_NODES {
            if stack.is_empty() {
                break;
            }
            // give up on this container
            pos = end;
            continue;
        }
        let (tag_len, hdr, len, bad) = read_header(d, pos, end);
        let parent = stack.last().map(|s| s.0).unwrap_or(usize::MAX);
        let tag = d[pos];
        let content = pos + hdr;
        let (clen, indefinite) = match len {
            Some(l) => (l, false),
            None => (end - content, true),
        };
        let mut node = Node {
            start: pos,
            hdr,
            tag_len,
            len: clen,
            tag,
            depth: stack.len() as u16,
            parent,
            indefinite,
            bad_len: bad,
            container: false,
            skip: 0,
        };
        let idx = nodes.len();
        let deep = stack.len() >= MAX_DEPTH;
        if !deep && clen > 0 {
            if tag & 0x20 != 0 {
                node.container = true;
            } else if tag == 0x04 && fills_exactly(&d[content..content + clen]) {
                node.container = true;
            } else if tag == 0x03 && clen > 2 && d[content] == 0 && fills_exactly(&d[content + 1..content + clen]) {
                node.container = true;
                node.skip = 1;
            }
        }
        nodes.push(node);
        if node.container {
            stack.push((idx, content + clen, indefinite));
            pos = content + node.skip;
        } else {
            pos = content + clen;
        }
    }
    nodes
}

/// Minimal DER length octets.
pub fn der_len(len: usize) -> Vec<u8> {
    if len < 0x80 {
        vec![len as u8]
    } else {
        let bytes = (len as u64).to_be_bytes();
        let skip = bytes.iter().take_while(|b| **b == 0).count();
        let mut v = vec![0x80 | (8 - skip) as u8];
        v.extend_from_slice(&bytes[skip..]);
        v
    }
}

pub fn tlv(tag: u8, content: &[u8]) -> Vec<u8> {
    let mut v = vec![tag];
    v.extend(der_len(content.len()));
    v.extend_from_slice(content);
    v
}

/// Replaces `d[at..at+old_len]` by `new` and, if `fix`, adjusts the length
/// octets of node `anc` and all its ancestors (innermost first) by the size
/// difference. `anc` is the innermost node whose *content* contains the
/// replaced range (usize::MAX: none).
pub fn splice(d: &mut Vec<u8>, nodes: &[Node], anc: usize, at: usize, old_len: usize, new: &[u8], fix: bool) {
    let at = at.min(d.len());
    let old_len = old_len.min(d.len() - at);
    d.splice(at..at + old_len, new.iter().copied());
    if fix {
        fix_parents(d, nodes, anc, new.len() as i64 - old_len as i64);
    }
}

//------------ operators -------------------------------------------------------

/// One mutation: plain numbers so that cases shrink and replay.
#[derive(Clone, Copy, Debug, Default, PartialEq, Eq)]
pub struct Op {
    pub kind: u8,
    /// node selector (monotone mapping onto the eligible nodes)
    pub sel: u16,
    pub a: u32,
    pub b: u32,
}

pub const N_KINDS: u8 = 17;

pub const KIND_NAMES: [&str; N_KINDS as usize] = [
    "value-byte", "tag", "length", "truncate", "delete", "duplicate", "splice", "nest", "edge-value",
    "swap", "raw", "make-range", "string", "as-edge", "segment", "bit-unused", "pad-to",
];

pub const SEGMENT: u8 = 14;
pub const BIT_UNUSED: u8 = 15;
pub const PAD_TO: u8 = 16;

/// Kinds whose `a` / `b` parameters use 12 bits each (all others are happy
/// with small numbers). Used by the random generators.
pub fn wide_params(kind: u8) -> bool {
    kind % N_KINDS == SEGMENT
}

fn pick(sel: u16, len: usize) -> usize {
    if len == 0 { 0 } else { ((sel as usize) * len) >> 16 }
}

const TAGS: &[u8] = &[
    0x30, 0x31, 0x02, 0x03, 0x04, 0x05, 0x06, 0x01, 0x0a, 0x0c, 0x13, 0x16, 0x17, 0x18, 0xa0, 0xa1, 0xa2, 0xa3, 0x80,
    0x81, 0x82, 0x86, 0x24, 0x23, 0x10, 0x11, 0x00, 0x1f, 0x3f, 0xbf, 0xff, 0x22, 0x36, 0x2c,
];

/// (tag, content) edge values for primitive nodes.
const INT_EDGES: &[&[u8]] = &[
    &[0x00],
    &[0x01],
    &[0x02],
    &[0x03],
    &[0x7f],
    &[0x00, 0x80],
    &[0x00, 0xff],
    &[0x00, 0xff, 0xff, 0xff, 0xff],       // 4294967295
    &[0x00, 0xff, 0xff, 0xff, 0xfe],       // 4294967294
    &[0x01, 0x00, 0x00, 0x00, 0x00],       // 2^32
    &[0x7f, 0xff, 0xff, 0xff],             // 2^31-1
    &[0x00, 0x80, 0x00, 0x00, 0x00],       // 2^31
    &[0xff],                               // -1
    &[0x80],                               // -128
    &[0x00, 0x00],                         // non-minimal zero
    &[0x00, 0x01],                         // non-minimal
    &[0xff, 0xff],                         // non-minimal -1
    &[],                                   // empty
    &[0x00, 0xff, 0xff],                   // 65535
    &[0x21],                               // 33
    &[0x00, 0x81],                         // 129
    &[0x7f, 0xff, 0xff, 0xff, 0xff, 0xff, 0xff, 0xff],
    &[0x00, 0xff, 0xff, 0xff, 0xff, 0xff, 0xff, 0xff, 0xff],
    &[0x7f, 0xff, 0xff, 0xff, 0xff, 0xff, 0xff, 0xff, 0xff, 0xff, 0xff, 0xff, 0xff, 0xff, 0xff, 0xff, 0xff, 0xff, 0xff, 0xff], // 20 octets
    &[0x00, 0xff, 0xff, 0xff, 0xff, 0xff, 0xff, 0xff, 0xff, 0xff, 0xff, 0xff, 0xff, 0xff, 0xff, 0xff, 0xff, 0xff, 0xff, 0xff, 0xff], // 21 octets
    &[0x01, 0x00, 0x00, 0x00, 0x00, 0x00, 0x00, 0x00, 0x00, 0x00, 0x00, 0x00, 0x00, 0x00, 0x00, 0x00, 0x00, 0x00, 0x00, 0x00, 0x00, 0x00],
];

const BIT_EDGES: &[&[u8]] = &[
    &[0x00],                                // /0
    &[0x07, 0x80],                          // /1
    &[0x00, 0x0a],                          // /8
    &[0x01, 0xfe],                          // /7 ok
    &[0x01, 0xff],                          // non-zero unused bit
    &[0x00, 0xc0, 0x00, 0x02, 0x00],        // v4 /32
    &[0x00, 0xff, 0xff, 0xff, 0xff],        // v4 /32 all ones
    &[0x07, 0xc0, 0x00, 0x02, 0x00, 0x80],  // 33 bits (too long for v4)
    &[0x00, 0x20, 0x01, 0x0d, 0xb8, 0, 0, 0, 0, 0, 0, 0, 0, 0, 0, 0, 0x01], // v6 /128
    &[0x00, 0xff, 0xff, 0xff, 0xff, 0xff, 0xff, 0xff, 0xff, 0xff, 0xff, 0xff, 0xff, 0xff, 0xff, 0xff, 0xff],
    &[0x07, 0x20, 0x01, 0x0d, 0xb8, 0, 0, 0, 0, 0, 0, 0, 0, 0, 0, 0, 0x01, 0x80], // 129 bits
    &[0x00, 0x20, 0x01, 0x0d, 0xb8, 0, 0, 0, 0, 0, 0, 0, 0, 0, 0, 0, 0, 0, 0, 0, 0, 0, 0, 0, 0, 0, 0, 0, 0, 0, 0, 0, 1], // 256 bits
    &[0x08, 0x00],                          // unused = 8
    &[0xff, 0x00],                          // unused = 255
    &[0x07],                                // unused bits but no octets
    &[],                                    // empty
    &[0x00, 0x00],                          // 0.0.0.0/8-like, /8
    &[0x04, 0x10],                          // /4
    &[0x00, 0x80],
    &[0x01, 0x06],                          // key usage CA
    &[0x07, 0x00],
];

const TIME_EDGES: &[&[u8]] = &[
    b"000101000000Z",
    b"491231235959Z",
    b"500101000000Z",
    b"991231235959Z",
    b"20491231235959Z",
    b"20500101000000Z",
    b"99991231235959Z",
    b"00000101000000Z",
    b"19700101000000Z",
    b"240230000000Z",
    b"241301000000Z",
    b"240101240000Z",
    b"240101006000Z",
    b"240101000060Z",
    b"2401010000Z",
    b"240101000000+0000",
    b"+1+1+1+1+1+1Z",
    b"20240101000000.5Z",
    b"2024010100000Z",
    b"\xff\xff\xff\xff\xff\xff\xff\xff\xff\xff\xff\xffZ",
    b"",
    b"Z",
];

const STR_EDGES: &[&[u8]] = &[
    b"rsync://example.com/module/",
    b"rsync://example.com/module/a/b.cer",
    b"rsync://example.com",
    b"rsync://example.com/",
    b"rsync:///m/",
    b"rsync://h/m/../x",
    b"RSYNC://EXAMPLE.com/Mod/a",
    b"https://example.com/notify.xml",
    b"https://",
    b"https://example.com",
    b"http://example.com/x",
    b"",
    b"/",
    b"a.roa",
    b".cer",
    b"a..b.cer",
    b"a/b.cer",
    b"\xc3\xa4.cer",
    b"rsync://ex\x00ample.com/m/",
    b"rsync://example.com/m/\xff",
    b"abcdef0123456789abcdef0123456789abcdef01",
];

/// content octets of OIDs that steer decoders into other branches
const OID_EDGES: &[&[u8]] = &[
    &[0x2b, 0x06, 0x01, 0x05, 0x05, 0x07, 0x01, 0x07],       // pe-ipAddrBlocks
    &[0x2b, 0x06, 0x01, 0x05, 0x05, 0x07, 0x01, 0x08],       // pe-autonomousSysIds
    &[0x2b, 0x06, 0x01, 0x05, 0x05, 0x07, 0x01, 0x1c],       // pe-ipAddrBlocks-v2
    &[0x2b, 0x06, 0x01, 0x05, 0x05, 0x07, 0x01, 0x1d],       // pe-autonomousSysIds-v2
    &[0x2b, 0x06, 0x01, 0x05, 0x05, 0x07, 0x0e, 0x02],       // cp-ipAddr-asNumber
    &[0x2b, 0x06, 0x01, 0x05, 0x05, 0x07, 0x0e, 0x03],       // cp-ipAddr-asNumber-v2
    &[0x2b, 0x06, 0x01, 0x05, 0x05, 0x07, 0x01, 0x0b],       // pe-subjectInfoAccess
    &[0x2b, 0x06, 0x01, 0x05, 0x05, 0x07, 0x01, 0x01],       // pe-authorityInfoAccess
    &[0x2b, 0x06, 0x01, 0x05, 0x05, 0x07, 0x30, 0x05],       // ad-caRepository
    &[0x2b, 0x06, 0x01, 0x05, 0x05, 0x07, 0x30, 0x0a],       // ad-rpkiManifest
    &[0x2b, 0x06, 0x01, 0x05, 0x05, 0x07, 0x30, 0x0b],       // ad-signedObject
    &[0x2b, 0x06, 0x01, 0x05, 0x05, 0x07, 0x30, 0x0d],       // ad-rpkiNotify
    &[0x2b, 0x06, 0x01, 0x05, 0x05, 0x07, 0x30, 0x02],       // ad-caIssuers
    &[0x2b, 0x06, 0x01, 0x05, 0x05, 0x07, 0x03, 0x1e],       // kp-bgpsec-router
    &[0x55, 0x1d, 0x13],                                      // basicConstraints
    &[0x55, 0x1d, 0x0e],                                      // subjectKeyIdentifier
    &[0x55, 0x1d, 0x23],                                      // authorityKeyIdentifier
    &[0x55, 0x1d, 0x0f],                                      // keyUsage
    &[0x55, 0x1d, 0x25],                                      // extKeyUsage
    &[0x55, 0x1d, 0x1f],                                      // cRLDistributionPoints
    &[0x55, 0x1d, 0x20],                                      // certificatePolicies
    &[0x55, 0x1d, 0x14],                                      // cRLNumber
    &[0x55, 0x04, 0x03],                                      // commonName
    &[0x55, 0x04, 0x05],                                      // serialNumber
    &[0x2a, 0x86, 0x48, 0x86, 0xf7, 0x0d, 0x01, 0x09, 0x10, 0x01, 0x18], // ct-ROA
    &[0x2a, 0x86, 0x48, 0x86, 0xf7, 0x0d, 0x01, 0x09, 0x10, 0x01, 0x1a], // ct-MFT
    &[0x2a, 0x86, 0x48, 0x86, 0xf7, 0x0d, 0x01, 0x09, 0x10, 0x01, 0x31], // ct-ASPA
    &[0x2a, 0x86, 0x48, 0x86, 0xf7, 0x0d, 0x01, 0x09, 0x10, 0x01, 0x24], // ct-RTA
    &[0x2a, 0x86, 0x48, 0x86, 0xf7, 0x0d, 0x01, 0x09, 0x10, 0x01, 0x1c], // ct-xml (protocol)
    &[0x2a, 0x86, 0x48, 0x86, 0xf7, 0x0d, 0x01, 0x07, 0x02], // signedData
    &[0x2a, 0x86, 0x48, 0x86, 0xf7, 0x0d, 0x01, 0x09, 0x03], // contentType
    &[0x2a, 0x86, 0x48, 0x86, 0xf7, 0x0d, 0x01, 0x09, 0x04], // messageDigest
    &[0x2a, 0x86, 0x48, 0x86, 0xf7, 0x0d, 0x01, 0x09, 0x05], // signingTime
    &[0x2a, 0x86, 0x48, 0x86, 0xf7, 0x0d, 0x01, 0x09, 0x10, 0x02, 0x2e], // binarySigningTime
    &[0x2a, 0x86, 0x48, 0x86, 0xf7, 0x0d, 0x01, 0x01, 0x0b], // sha256WithRSA
    &[0x2a, 0x86, 0x48, 0x86, 0xf7, 0x0d, 0x01, 0x01, 0x01], // rsaEncryption
    &[0x2a, 0x86, 0x48, 0xce, 0x3d, 0x04, 0x03, 0x02],       // ecdsa-with-SHA256
    &[0x2a, 0x86, 0x48, 0xce, 0x3d, 0x02, 0x01],             // ecPublicKey
    &[0x60, 0x86, 0x48, 0x01, 0x65, 0x03, 0x04, 0x02, 0x01], // sha256
    &[0x2a, 0x86, 0x48, 0x86, 0xf7, 0x0d, 0x01, 0x09, 0x0e], // extensionRequest
    &[],
    &[0x80],
    &[0x2a, 0x80, 0x01],
    &[0xff, 0xff, 0xff, 0xff, 0xff, 0xff, 0xff, 0xff, 0xff, 0x7f],
];

const NEST_DEPTHS: &[u32] = &[1, 1, 1, 2, 2, 2, 3, 3, 4, 4, 8, 8, 16, 16, 64, 64, 300, 1000, 5000, 20000];
const DUP_COUNTS: &[u32] = &[1, 1, 1, 1, 2, 2, 3, 3, 8, 8, 50, 50, 1000, 17000];

/// (min, max) AS pairs for `make-range` / `as-edge`.
const AS_PAIRS: &[(u64, u64)] = &[
    (0, 4294967295),
    (1, 0),
    (4294967295, 0),
    (4294967295, 4294967295),
    (0, 0),
    (65536, 65535),
    (1, 4294967295),
    (0, 4294967294),
    (4294967294, 4294967295),
    (2147483648, 2147483647),
    (0, 4294967296),
    (4294967296, 4294967297),
    (64496, 64511),
    (5, 4),
];

/// `segment`: number of segments.
const SEG_COUNTS: &[usize] = &[2, 1, 2, 3, 3, 4, 8, 33];
/// `segment`: change of the total number of value octets.
const SEG_DELTAS: &[i32] = &[0, 1, 0, 3, -1, 43, 0, 300];
/// `pad-to`: content lengths around the changes of the length form (and the
/// 16 bit limits some callers rely on).
const PAD_TARGETS: &[usize] = &[0x7f, 0x80, 0xff, 0x100, 0xffff, 0x1_0000, 0x1_0001];

/// Primitive encodings that BER also allows in constructed (segmented) form.
fn is_string_tag(tag: u8) -> bool {
    if tag & 0x20 != 0 {
        return false;
    }
    match tag & 0xc0 {
        0x00 => matches!(tag, 0x03 | 0x04 | 0x0c | 0x12 | 0x13 | 0x14 | 0x16 | 0x17 | 0x18 | 0x1a | 0x1b | 0x1c | 0x1e),
        // implicitly tagged values: most are strings (key identifiers, general names)
        0x80 => tag & 0x1f != 0x1f,
        _ => false,
    }
}

/// Size of a definite-length TLV with a one-octet tag and `c` content octets.
fn tl(c: usize) -> usize {
    1 + der_len(c).len() + c
}

/// Content size of the TLV (one-octet tag, minimal length) that is exactly
/// `total` octets long; None where the length forms leave a gap.
fn fit(total: usize) -> Option<usize> {
    (total.saturating_sub(10)..total.saturating_sub(1)).find(|&c| tl(c) == total)
}

/// A run of definite-length TLVs of exactly `total` octets: one primitive
/// `tag` value of zeros, behind a NULL where a single value cannot have
/// that size.
fn junk_exact(tag: u8, total: usize) -> Option<Vec<u8>> {
    if let Some(c) = fit(total) {
        let mut v = vec![tag];
        v.extend(der_len(c));
        v.resize(total, 0);
        return Some(v);
    }
    if total >= 4 {
        let mut v = vec![0x05, 0x00];
        v.extend(junk_exact(tag, total - 2)?);
        return Some(v);
    }
    None
}

/// An attribute-shaped value (SEQUENCE { OID 2.5.4.99, SET { OCTET STRING of
/// zeros, NULL ... } }) of exactly `total` octets (at least 11).
fn junk_attr(total: usize) -> Option<Vec<u8>> {
    for extra in 0..4usize {
        for z in total.saturating_sub(24)..=total {
            let set_body = 2 * extra + tl(z);
            let seq_body = 5 + tl(set_body);
            if tl(seq_body) != total {
                continue;
            }
            let mut v = vec![0x30];
            v.extend(der_len(seq_body));
            v.extend_from_slice(&[0x06, 0x03, 0x55, 0x04, 0x63, 0x31]);
            v.extend(der_len(set_body));
            v.push(0x04);
            v.extend(der_len(z));
            v.resize(v.len() + z, 0);
            for _ in 0..extra {
                v.extend_from_slice(&[0x05, 0x00]);
            }
            return Some(v);
        }
    }
    None
}

/// BER constructed form of a primitive string: `tag | 0x20` around the
/// pieces of `payload` cut at `cuts` (ascending, <= payload.len()).
/// `seg_tag` is the tag of the segments, `unused` the first content octet of
/// a BIT STRING (goes on the last segment, all others get 0). `form`:
/// 3 / 6 indefinite length, 5 / 6 every segment itself constructed,
/// 7 long-form lengths on the segments.
fn segmented(tag: u8, seg_tag: u8, unused: Option<u8>, payload: &[u8], cuts: &[usize], form: u32) -> Vec<u8> {
    let mut body = Vec::with_capacity(payload.len() + 8 * (cuts.len() + 1));
    let mut from = 0;
    let n = cuts.len() + 1;
    for i in 0..n {
        let to = if i + 1 == n { payload.len() } else { cuts[i].min(payload.len()).max(from) };
        let mut c = Vec::with_capacity(to - from + 1);
        if let Some(u) = unused {
            c.push(if i + 1 == n { u } else { 0 });
        }
        c.extend_from_slice(&payload[from..to]);
        let mut seg = vec![seg_tag];
        if form == 7 && c.len() < 0x80 {
            seg.extend_from_slice(&[0x81, c.len() as u8]);
        } else {
            seg.extend(der_len(c.len()));
        }
        seg.extend(c);
        if form == 5 || form == 6 {
            seg = tlv(seg_tag | 0x20, &seg);
        }
        body.extend(seg);
        from = to;
    }
    let mut out = vec![tag | 0x20];
    if form == 3 || form == 6 {
        out.push(0x80);
        out.extend(body);
        out.extend_from_slice(&[0, 0]);
    } else {
        out.extend(der_len(body.len()));
        out.extend(body);
    }
    out
}

/// Constructed form of exactly `total` octets: empty OCTET STRING segments
/// (one of them with a long-form length where the parity asks for it) in
/// front of one segment holding `payload`.
fn segmented_exact(tag: u8, payload: &[u8], total: usize) -> Option<Vec<u8>> {
    let body = fit(total)?;
    let r = body.checked_sub(tl(payload.len()))?;
    let (k, odd) = if r % 2 == 0 { (r / 2, false) } else if r >= 3 { ((r - 3) / 2, true) } else { return None };
    let mut out = Vec::with_capacity(total);
    out.push(tag | 0x20);
    out.extend(der_len(body));
    for _ in 0..k {
        out.extend_from_slice(&[0x04, 0x00]);
    }
    if odd {
        out.extend_from_slice(&[0x04, 0x81, 0x00]);
    }
    out.extend(tlv(0x04, payload));
    debug_assert_eq!(out.len(), total);
    Some(out)
}

/// Growth of the content of `stop` when the node whose parent is `from`
/// grows by `g` octets (the length octets in between may grow as well);
/// mirrors `fix_parents`. None if `stop` is not an ancestor.
fn chain_growth(nodes: &[Node], from: usize, stop: usize, g: i64) -> Option<i64> {
    let mut delta = g;
    let mut a = from;
    let mut guard = 0;
    while a != stop {
        if a == usize::MAX || guard > 256 {
            return None;
        }
        guard += 1;
        let n = nodes[a];
        a = n.parent;
        if n.indefinite || n.bad_len {
            continue;
        }
        let new_len = n.len as i64 + delta;
        if new_len < 0 {
            return None;
        }
        delta += der_len(new_len as usize).len() as i64 - (n.hdr - n.tag_len) as i64;
    }
    Some(delta)
}

fn int_content(v: u64) -> Vec<u8> {
    let b = v.to_be_bytes();
    let mut i = 0;
    while i < 7 && b[i] == 0 {
        i += 1;
    }
    let mut out = Vec::new();
    if b[i] & 0x80 != 0 {
        out.push(0);
    }
    out.extend_from_slice(&b[i..]);
    out
}

fn eligible(nodes: &[Node], f: impl Fn(&Node) -> bool) -> Vec<usize> {
    nodes.iter().enumerate().filter(|(_, n)| f(n)).map(|(i, _)| i).collect()
}

fn children(nodes: &[Node], idx: usize) -> Vec<usize> {
    // direct children follow in document order until depth drops
    let d = nodes[idx].depth + 1;
    let mut out = Vec::new();
    for (i, n) in nodes.iter().enumerate().skip(idx + 1) {
        if n.depth < d {
            break;
        }
        if n.depth == d && n.parent == idx {
            out.push(i);
        }
    }
    out
}

/// Applies one operator. `donor(i)` yields another seed for `splice`.
/// Output is capped at `max_len` octets.
pub fn apply(d: &mut Vec<u8>, op: Op, donor: &dyn Fn(u32) -> Vec<u8>, max_len: usize) {
    let nodes = scan(d);
    if nodes.is_empty() {
        // nothing structured: raw mutation only
        raw(d, op);
        d.truncate(max_len);
        return;
    }
    match op.kind % N_KINDS {
        0 => {
            // value byte of a primitive node
            let el = eligible(&nodes, |n| n.len > 0 && !n.container);
            if el.is_empty() {
                raw(d, op);
            } else {
                let n = nodes[el[pick(op.sel, el.len())]];
                let off = n.content() + (op.a as usize % n.len);
                let v = match op.b % 6 {
                    0 => d[off] ^ (1 << (op.b / 6 % 8)),
                    1 => 0x00,
                    2 => 0xff,
                    3 => 0x80,
                    4 => d[off].wrapping_add(1),
                    _ => (op.b >> 8) as u8,
                };
                d[off] = v;
            }
        }
        1 => {
            let n = nodes[pick(op.sel, nodes.len())];
            let t = match op.a % 4 {
                0 => n.tag ^ 0x20,
                _ => TAGS[op.b as usize % TAGS.len()],
            };
            d[n.start] = t;
        }
        2 => {
            let i = pick(op.sel, nodes.len());
            let n = nodes[i];
            let lpos = n.start + n.tag_len;
            let old = n.hdr - n.tag_len;
            let l = n.len as u64;
            let (enc, fix, eoc): (Vec<u8>, bool, bool) = match op.a % 16 {
                0 => (vec![0x81, l as u8], l < 256, false),
                1 => (vec![0x82, (l >> 8) as u8, l as u8], l < 65536, false),
                2 => (vec![0x84, (l >> 24) as u8, (l >> 16) as u8, (l >> 8) as u8, l as u8], true, false),
                3 => (vec![0x80], true, true),
                4 => (der_len((l + 1) as usize), false, false),
                5 => (der_len(l.saturating_sub(1) as usize), false, false),
                6 => (vec![0x00], false, false),
                7 => (vec![0x7f], false, false),
                8 => (vec![0x84, 0xff, 0xff, 0xff, 0xff], false, false),
                9 => (vec![0x88, 0xff, 0xff, 0xff, 0xff, 0xff, 0xff, 0xff, 0xff], false, false),
                10 => (vec![0x89, 1, 0, 0, 0, 0, 0, 0, 0, 0], false, false),
                11 => (vec![0xff], false, false),
                12 => (vec![0x84, 0x7f, 0xff, 0xff, 0xff], false, false),
                13 => (vec![0x88, 0, 0, 0, 0, (l >> 24) as u8, (l >> 16) as u8, (l >> 8) as u8, l as u8], true, false),
                14 => (der_len((op.b % 70000) as usize), false, false),
                _ => (vec![0x80], false, false),
            };
            if eoc {
                d.splice(lpos..lpos + old, enc.iter().copied());
                let delta = enc.len() as i64 - old as i64;
                let end = (n.end() as i64 + delta) as usize;
                d.splice(end..end, [0u8, 0]);
                fix_parents(d, &nodes, n.parent, delta + 2);
            } else {
                d.splice(lpos..lpos + old, enc.iter().copied());
                if fix {
                    fix_parents(d, &nodes, n.parent, enc.len() as i64 - old as i64);
                }
            }
        }
        3 => {
            let i = pick(op.sel, nodes.len());
            let n = nodes[i];
            if op.b % 2 == 0 {
                // raw cut of the whole input inside / at this node
                let at = n.start + (op.a as usize % (n.total() + 1));
                d.truncate(at);
            } else if n.len > 0 {
                // structured: drop the tail of the node's content
                let keep = op.a as usize % n.len;
                let at = n.content() + keep;
                splice(d, &nodes, i, at, n.len - keep, &[], true);
            }
        }
        4 => {
            let i = pick(op.sel, nodes.len());
            let n = nodes[i];
            splice(d, &nodes, n.parent, n.start, n.total(), &[], true);
        }
        5 => {
            let i = pick(op.sel, nodes.len());
            let n = nodes[i];
            let count = DUP_COUNTS[op.a as usize % DUP_COUNTS.len()] as usize;
            let one = d[n.start..n.end()].to_vec();
            let room = max_len.saturating_sub(d.len());
            let count = count.min(room / one.len().max(1)).max(1);
            let mut ins = Vec::with_capacity(one.len() * count);
            for _ in 0..count {
                ins.extend_from_slice(&one);
            }
            splice(d, &nodes, n.parent, n.end(), 0, &ins, true);
        }
        6 => {
            let i = pick(op.sel, nodes.len());
            let n = nodes[i];
            let don = donor(op.a);
            let dn = scan(&don);
            if !dn.is_empty() {
                let s = dn[pick((op.b & 0xffff) as u16, dn.len())];
                let piece = &don[s.start..s.end()];
                if (op.b >> 16) % 3 == 0 {
                    splice(d, &nodes, n.parent, n.end(), 0, piece, true);
                } else {
                    splice(d, &nodes, n.parent, n.start, n.total(), piece, true);
                }
            }
        }
        7 => {
            let i = pick(op.sel, nodes.len());
            let n = nodes[i];
            let depth = NEST_DEPTHS[op.a as usize % NEST_DEPTHS.len()] as usize;
            let tag = match op.b % 6 {
                0 | 1 => 0x30,
                2 => 0xa0,
                3 => 0x31,
                4 => 0x04,
                _ => n.tag | 0x20,
            };
            let inner = d[n.start..n.end()].to_vec();
            let mut hdrs: Vec<Vec<u8>> = Vec::with_capacity(depth);
            let mut len = inner.len();
            for _ in 0..depth {
                let mut h = vec![tag];
                h.extend(der_len(len));
                len += h.len();
                hdrs.push(h);
                if len > max_len {
                    break;
                }
            }
            let mut out = Vec::with_capacity(len);
            for h in hdrs.iter().rev() {
                out.extend_from_slice(h);
            }
            out.extend_from_slice(&inner);
            splice(d, &nodes, n.parent, n.start, n.total(), &out, true);
        }
        8 => {
            let el = eligible(&nodes, |n| !n.container && matches!(n.tag, 0x02 | 0x03 | 0x0a | 0x01 | 0x80 | 0x81 | 0x04));
            if el.is_empty() {
                raw(d, op);
            } else {
                let i = el[pick(op.sel, el.len())];
                let n = nodes[i];
                let val: &[u8] = if n.tag == 0x03 {
                    BIT_EDGES[op.a as usize % BIT_EDGES.len()]
                } else {
                    INT_EDGES[op.a as usize % INT_EDGES.len()]
                };
                splice(d, &nodes, i, n.content(), n.len, val, true);
            }
        }
        9 => {
            // swap the two halves of a range, or two neighbouring siblings
            let pairs = eligible(&nodes, |n| n.container && n.tag == 0x30);
            let mut cand: Vec<(usize, usize)> = Vec::new();
            for &p in &pairs {
                let ch = children(&nodes, p);
                if ch.len() == 2 && nodes[ch[0]].tag == nodes[ch[1]].tag && matches!(nodes[ch[0]].tag, 0x02 | 0x03) {
                    cand.push((ch[0], ch[1]));
                }
                if cand.len() > 512 {
                    break;
                }
            }
            let (x, y) = if !cand.is_empty() && op.a % 4 != 3 {
                cand[pick(op.sel, cand.len())]
            } else {
                let i = pick(op.sel, nodes.len());
                let n = nodes[i];
                let next = nodes.iter().enumerate().skip(i + 1).find(|(_, m)| m.parent == n.parent && m.depth == n.depth);
                match next {
                    Some((j, _)) => (i, j),
                    None => (i, i),
                }
            };
            if x != y {
                let (a, b) = (nodes[x], nodes[y]);
                if a.end() <= b.start {
                    let first = d[a.start..a.end()].to_vec();
                    let second = d[b.start..b.end()].to_vec();
                    let mid = d[a.end()..b.start].to_vec();
                    let mut out = second;
                    out.extend(mid);
                    out.extend(first);
                    d.splice(a.start..b.end(), out);
                }
            }
        }
        10 => raw(d, op),
        11 => {
            // replace an INTEGER by an AS range / a BIT STRING by an address range
            let el = eligible(&nodes, |n| !n.container && matches!(n.tag, 0x02 | 0x03) && n.depth >= 2);
            if el.is_empty() {
                raw(d, op);
            } else {
                let i = el[pick(op.sel, el.len())];
                let n = nodes[i];
                let body = if n.tag == 0x02 {
                    let (lo, hi) = AS_PAIRS[op.a as usize % AS_PAIRS.len()];
                    let mut b = tlv(0x02, &int_content(lo));
                    b.extend(tlv(0x02, &int_content(hi)));
                    b
                } else {
                    let lo = BIT_EDGES[op.a as usize % BIT_EDGES.len()];
                    let hi = BIT_EDGES[op.b as usize % BIT_EDGES.len()];
                    let mut b = tlv(0x03, lo);
                    b.extend(tlv(0x03, hi));
                    b
                };
                let out = tlv(0x30, &body);
                splice(d, &nodes, n.parent, n.start, n.total(), &out, true);
            }
        }
        12 => {
            let el = eligible(&nodes, |n| !n.container && matches!(n.tag, 0x17 | 0x18 | 0x16 | 0x13 | 0x0c | 0x06 | 0x86));
            if el.is_empty() {
                raw(d, op);
            } else {
                let i = el[pick(op.sel, el.len())];
                let n = nodes[i];
                // times: half from the table, half a generated calendar-shaped value (any
                // century, months 0..13, days 0 and 28..32, hours to 24, minutes / seconds to 60)
                let generated: Vec<u8>;
                let val: &[u8] = match n.tag {
                    0x17 | 0x18 if op.b & 0x10 != 0 => {
                        let a = op.a;
                        let year = [1600u32, 1900, 2000, 2100, 2200, 2300, 2400, 1950, 2049, 2050, 1, 9999, 2024, 2023][(a % 14) as usize] + ((a >> 4) % 3);
                        let month = [0u32, 1, 2, 2, 2, 4, 6, 8, 9, 11, 12, 13][((a >> 6) % 12) as usize];
                        let day = [0u32, 1, 28, 29, 29, 30, 31, 32][((a >> 10) % 8) as usize];
                        let (h, mi, sec) = ([0u32, 12, 23, 24][((a >> 13) % 4) as usize], [0u32, 59, 60][((a >> 15) % 3) as usize], [0u32, 59, 60, 61][((a >> 17) % 4) as usize]);
                        let final_tag = if op.b % 4 == 0 { n.tag ^ 0x0f } else { n.tag };
                        // the form that goes with the tag the value ends up under (1 in 8: the other)
                        let generalized = (final_tag == 0x18) != ((a >> 19) % 8 == 0);
                        generated = if generalized {
                            format!("{:04}{:02}{:02}{:02}{:02}{:02}Z", year, month, day, h, mi, sec).into_bytes()
                        } else {
                            format!("{:02}{:02}{:02}{:02}{:02}{:02}Z", year % 100, month, day, h, mi, sec).into_bytes()
                        };
                        &generated
                    }
                    0x17 | 0x18 => TIME_EDGES[op.a as usize % TIME_EDGES.len()],
                    0x06 => OID_EDGES[op.a as usize % OID_EDGES.len()],
                    _ => STR_EDGES[op.a as usize % STR_EDGES.len()],
                };
                if matches!(n.tag, 0x17 | 0x18) && op.b % 4 == 0 {
                    d[n.start] ^= 0x0f; // 0x17 <-> 0x18
                }
                splice(d, &nodes, i, n.content(), n.len, val, true);
            }
        }
        13 => {
            // both ends of an existing INTEGER range, or a single INTEGER
            let pairs = eligible(&nodes, |n| n.container && n.tag == 0x30);
            let mut cand: Vec<(usize, usize, usize)> = Vec::new();
            for &p in &pairs {
                let ch = children(&nodes, p);
                if ch.len() == 2 && nodes[ch[0]].tag == 0x02 && nodes[ch[1]].tag == 0x02 {
                    cand.push((p, ch[0], ch[1]));
                }
                if cand.len() > 512 {
                    break;
                }
            }
            let (lo, hi) = AS_PAIRS[op.a as usize % AS_PAIRS.len()];
            if let Some(&(p, _, _)) = cand.get(pick(op.sel, cand.len())).filter(|_| !cand.is_empty()) {
                let n = nodes[p];
                let mut body = tlv(0x02, &int_content(lo));
                body.extend(tlv(0x02, &int_content(hi)));
                splice(d, &nodes, p, n.content(), n.len, &body, true);
            } else {
                let el = eligible(&nodes, |n| !n.container && n.tag == 0x02);
                if el.is_empty() {
                    raw(d, op);
                } else {
                    let i = el[pick(op.sel, el.len())];
                    let n = nodes[i];
                    splice(d, &nodes, i, n.content(), n.len, &int_content(if op.b % 2 == 0 { lo } else { hi }), true);
                }
            }
        }
        14 => {
            // primitive string -> BER constructed form (1..n segments, empty
            // segments, total length kept / grown / shrunk). Implicitly
            // tagged strings count four times: they are few and reach
            // decoders of their own (key identifiers, general names).
            let mut el = eligible(&nodes, |n| is_string_tag(n.tag));
            if el.is_empty() {
                el = eligible(&nodes, |n| n.tag & 0x20 == 0);
            }
            if el.is_empty() {
                raw(d, op);
            } else {
                let mut weighted = Vec::with_capacity(el.len() * 2);
                for &i in &el {
                    let w = if nodes[i].tag & 0xc0 == 0x80 { 4 } else { 1 };
                    for _ in 0..w {
                        weighted.push(i);
                    }
                }
                let i = weighted[pick(op.sel, weighted.len())];
                let n = nodes[i];
                let content = &d[n.content()..n.end()];
                let bits = n.tag == 0x03 && !content.is_empty();
                let unused = if bits { Some(content[0]) } else { None };
                let mut payload = content[if bits { 1 } else { 0 }..].to_vec();
                let delta = SEG_DELTAS[(op.b & 7) as usize];
                if delta > 0 {
                    let fill = if bits { 0 } else { payload.last().copied().unwrap_or(0x61) };
                    payload.resize(payload.len() + delta as usize, fill);
                } else {
                    payload.truncate(payload.len().saturating_sub((-delta) as usize));
                }
                let form = (op.b >> 3) & 7;
                let nseg = SEG_COUNTS[(op.a & 7) as usize];
                // first cut anywhere (incl. 0 and len: empty segments), the
                // rest split evenly
                let first = ((op.a >> 3) & 0x1ff) as usize % (payload.len() + 1);
                let mut cuts = Vec::with_capacity(nseg);
                if nseg > 1 {
                    cuts.push(first);
                    let rest = payload.len() - first;
                    for k in 1..nseg - 1 {
                        cuts.push(first + rest * k / (nseg - 1));
                    }
                }
                // form 4: segments repeat the (implicit) tag instead of the universal one
                let seg_tag = if n.tag == 0x03 { 0x03 } else if form == 4 { n.tag } else { 0x04 };
                let out = segmented(n.tag, seg_tag, unused, &payload, &cuts, form);
                if d.len() - n.total() + out.len() + 16 <= max_len {
                    splice(d, &nodes, n.parent, n.start, n.total(), &out, true);
                }
            }
        }
        15 => {
            // "unused bits" octet of a BIT STRING: 1..7 with those bits
            // cleared (valid DER), or left as they are / out of range
            let el = eligible(&nodes, |n| n.tag == 0x03 && n.len >= 1 && !n.indefinite);
            if el.is_empty() {
                raw(d, op);
            } else {
                let n = nodes[el[pick(op.sel, el.len())]];
                let u: u8 = match op.a % 10 {
                    x @ 0..=6 => x as u8 + 1,
                    7 => 8,
                    8 => 0,
                    _ => 0xff,
                };
                d[n.content()] = u;
                if n.len >= 2 && op.b % 4 != 3 && u < 8 {
                    let last = n.end() - 1;
                    d[last] &= 0xffu8 << u;
                }
            }
        }
        _ => {
            // pad a constructed value so that its content length lands
            // exactly on a length-form boundary. SETs and context-tagged
            // values count eight times (attribute sets, explicit wrappers).
            let el = eligible(&nodes, |n| n.tag & 0x20 != 0 && !n.bad_len);
            if el.is_empty() {
                raw(d, op);
            } else {
                let mut weighted = Vec::with_capacity(el.len() * 2);
                for &i in &el {
                    let t = nodes[i].tag;
                    let w = if t == 0x31 || t & 0xc0 == 0x80 { 8 } else { 1 };
                    for _ in 0..w {
                        weighted.push(i);
                    }
                }
                let ai = weighted[pick(op.sel, weighted.len())];
                let a = nodes[ai];
                let method = op.b & 3;
                // string descendants that may be segmented (method 2)
                let mut desc: Vec<usize> = Vec::new();
                if method == 2 {
                    for (i, m) in nodes.iter().enumerate().skip(ai + 1) {
                        if m.depth <= a.depth {
                            break;
                        }
                        if is_string_tag(m.tag) && m.tag != 0x03 {
                            desc.push(i);
                        }
                    }
                }
                let start = op.a as usize % PAD_TARGETS.len();
                for k in 0..PAD_TARGETS.len() {
                    let target = PAD_TARGETS[(start + k) % PAD_TARGETS.len()];
                    if target <= a.len || d.len() + (target - a.len) + 32 > max_len {
                        continue;
                    }
                    let grow = target - a.len;
                    match method {
                        2 => {
                            if desc.is_empty() {
                                break;
                            }
                            let di = desc[(op.b >> 4) as usize % desc.len()];
                            let dn = nodes[di];
                            let payload = d[dn.content()..dn.end()].to_vec();
                            let mut done = false;
                            for g in (grow.saturating_sub(16)..=grow).rev() {
                                if chain_growth(&nodes, dn.parent, ai, g as i64) != Some(grow as i64) {
                                    continue;
                                }
                                if let Some(out) = segmented_exact(dn.tag, &payload, dn.total() + g) {
                                    splice(d, &nodes, dn.parent, dn.start, dn.total(), &out, true);
                                    done = true;
                                    break;
                                }
                            }
                            if done {
                                break;
                            }
                        }
                        1 => {
                            // plain OCTET STRING of zeros in front of the first element
                            if let Some(j) = junk_exact(0x04, grow) {
                                splice(d, &nodes, ai, a.content(), 0, &j, true);
                                break;
                            }
                        }
                        _ => {
                            // attribute-shaped element behind the last one
                            if let Some(j) = junk_attr(grow) {
                                splice(d, &nodes, ai, a.end(), 0, &j, true);
                                break;
                            }
                        }
                    }
                }
            }
        }
    }
    d.truncate(max_len);
}

/// Adjusts the length octets of `anc` and all its ancestors (innermost
/// first) by `delta`. Valid as long as every edit so far happened inside
/// `anc`'s content (ancestor headers lie before it and outer headers before
/// inner ones, so patched positions stay valid).
pub fn fix_parents(d: &mut Vec<u8>, nodes: &[Node], anc: usize, delta: i64) {
    let mut delta = delta;
    let mut a = anc;
    let mut guard = 0;
    while a != usize::MAX && delta != 0 && guard < 256 {
        guard += 1;
        let n = nodes[a];
        a = n.parent;
        if n.indefinite || n.bad_len {
            continue;
        }
        let new_len = n.len as i64 + delta;
        if new_len < 0 {
            break;
        }
        let enc = der_len(new_len as usize);
        let lpos = n.start + n.tag_len;
        let old_enc = n.hdr - n.tag_len;
        if lpos + old_enc > d.len() {
            break;
        }
        {
            delta += enc.len() as i64 - old_enc as i64;
            d.splice(lpos..lpos + old_enc, enc);
        }
    }
}

/// Unstructured mutation of the whole buffer.
pub fn raw(d: &mut Vec<u8>, op: Op) {
    if d.is_empty() {
        d.push(op.b as u8);
        return;
    }
    let at = (op.sel as usize * d.len()) >> 16;
    match op.a % 6 {
        0 => d[at] ^= 1 << (op.b % 8),
        1 => d[at] = op.b as u8,
        2 => d.insert(at, op.b as u8),
        3 => {
            d.remove(at);
        }
        4 => d.truncate(at),
        _ => {
            let n = (op.b as usize % 16) + 1;
            let end = (at + n).min(d.len());
            let chunk = d[at..end].to_vec();
            d.splice(at..at, chunk);
        }
    }
}

/// Offset just behind the headers of the first three nested TLVs of `d`
/// (None if there are fewer than three well-formed nested headers).
pub fn third_header_end(d: &[u8]) -> Option<usize> {
    let mut pos = 0;
    let mut end = d.len();
    for level in 0..3 {
        if pos >= end {
            return None;
        }
        let (_, hdr, len, bad) = read_header(d, pos, end);
        if bad {
            return None;
        }
        let content = pos + hdr;
        let cend = match len {
            Some(l) => content + l,
            None => end,
        };
        if level == 2 {
            return Some(content);
        }
        // descend only into constructed values; otherwise step to the sibling
        if d[pos] & 0x20 == 0 {
            return None;
        }
        pos = content;
        end = cend;
    }
    None
}

//------------ base64 (TAL key info) -------------------------------------------

pub fn b64(data: &[u8]) -> Vec<u8> {
    const T: &[u8; 64] = b"ABCDEFGHIJKLMNOPQRSTUVWXYZabcdefghijklmnopqrstuvwxyz0123456789+/";
    let mut out = Vec::with_capacity(data.len() * 4 / 3 + data.len() / 48 + 8);
    let mut col = 0;
    for c in data.chunks(3) {
        let n = (c[0] as u32) << 16 | (*c.get(1).unwrap_or(&0) as u32) << 8 | *c.get(2).unwrap_or(&0) as u32;
        let q = [T[(n >> 18) as usize & 63], T[(n >> 12) as usize & 63], T[(n >> 6) as usize & 63], T[n as usize & 63]];
        out.push(q[0]);
        out.push(q[1]);
        out.push(if c.len() > 1 { q[2] } else { b'=' });
        out.push(if c.len() > 2 { q[3] } else { b'=' });
        col += 4;
        if col >= 64 {
            out.push(b'\n');
            col = 0;
        }
    }
    out.push(b'\n');
    out
}

pub fn unb64(text: &[u8]) -> Vec<u8> {
    let mut out = Vec::new();
    let mut acc = 0u32;
    let mut bits = 0;
    for &c in text {
        let v = match c {
            b'A'..=b'Z' => c - b'A',
            b'a'..=b'z' => c - b'a' + 26,
            b'0'..=b'9' => c - b'0' + 52,
            b'+' => 62,
            b'/' => 63,
            _ => continue,
        };
        acc = (acc << 6) | v as u32;
        bits += 6;
        if bits >= 8 {
            bits -= 8;
            out.push((acc >> bits) as u8);
        }
    }
    out
}

/// Splits a TAL into (comment and URI lines incl. the separating empty line,
/// base64 text). None if there is no empty line.
pub fn split_tal(text: &[u8]) -> Option<(&[u8], &[u8])> {
    let lf = text.windows(2).position(|w| w == b"\n\n").map(|p| p + 2);
    let crlf = text.windows(4).position(|w| w == b"\r\n\r\n").map(|p| p + 4);
    let at = match (lf, crlf) {
        (Some(a), Some(b)) => a.min(b),
        (a, b) => a.or(b)?,
    };
    Some((&text[..at], &text[at..]))
}
