//! Small pool of certificates, CSRs and identity certificates used inside the
//! CA protocol messages of C11. Built once per process with the library's
//! builders and the fixed key pool (deterministic signatures).

use crate::keys::PoolSigner;
use rpki::ca::csr::{Csr, RpkiCaCsr};
use rpki::ca::idcert::IdCert;
use rpki::repository::cert::{Cert, KeyUsage, Overclaim, TbsCert};
use rpki::repository::resources::{Asn, Prefix};
use rpki::repository::x509::{Time, Validity};
use rpki::uri;
use std::net::{Ipv4Addr, Ipv6Addr};
use std::str::FromStr;
use std::sync::OnceLock;

pub struct Pool {
    pub certs: Vec<Cert>,
    pub csrs: Vec<RpkiCaCsr>,
    /// DER of identity certificates
    pub idcerts: Vec<Vec<u8>>,
}

fn validity() -> Validity {
    Validity::new(Time::utc(2020, 1, 1, 0, 0, 0), Time::utc(2040, 1, 1, 0, 0, 0))
}

fn build() -> Pool {
    let signer = PoolSigner::new();
    let repo = uri::Rsync::from_str("rsync://repo.example.net/module/ca&'/").unwrap();
    let mft = uri::Rsync::from_str("rsync://repo.example.net/module/ca&'/ca.mft").unwrap();
    let notify = uri::Https::from_str("https://rrdp.example.net/notify.xml?a=1&b='2'").ok();
    let notify = notify.or_else(|| uri::Https::from_str("https://rrdp.example.net/notify.xml").ok());

    let mut certs = Vec::new();
    // 0: self-signed CA certificate with all resources
    {
        let key = signer.key(0);
        let info = signer.info(0);
        let mut ta = TbsCert::new(1u64.into(), info.to_subject_name(), validity(), None, info.clone(), KeyUsage::Ca, Overclaim::Refuse);
        ta.set_basic_ca(Some(true));
        ta.set_ca_repository(Some(repo.clone()));
        ta.set_rpki_manifest(Some(mft.clone()));
        ta.build_v4_resource_blocks(|b| b.push(Prefix::new(Ipv4Addr::new(0, 0, 0, 0), 0)));
        ta.build_v6_resource_blocks(|b| b.push(Prefix::new(Ipv6Addr::from(0u128), 0)));
        ta.build_as_resource_blocks(|b| b.push((Asn::MIN, Asn::MAX)));
        certs.push(ta.into_cert(&signer, &key).expect("ta cert"));
    }
    // 1..3: CA certificates issued by key 0 to keys 1..3
    for i in 1..4usize {
        let issuer = signer.info(0);
        let subject = signer.info(i);
        let mut c = TbsCert::new((100 + i as u64).into(), issuer.to_subject_name(), validity(), Some(subject.to_subject_name()), subject.clone(), KeyUsage::Ca, Overclaim::Refuse);
        c.set_basic_ca(Some(true));
        c.set_authority_key_identifier(Some(issuer.key_identifier()));
        c.set_ca_issuer(Some(uri::Rsync::from_str("rsync://repo.example.net/module/ta.cer").unwrap()));
        c.set_crl_uri(Some(uri::Rsync::from_str("rsync://repo.example.net/module/ta.crl").unwrap()));
        c.set_ca_repository(Some(repo.clone()));
        c.set_rpki_manifest(Some(mft.clone()));
        if i != 2 {
            c.set_rpki_notify(notify.clone());
        }
        match i {
            1 => {
                c.build_v4_resource_blocks(|b| b.push(Prefix::new(Ipv4Addr::new(10, 0, 0, 0), 8)));
                c.build_as_resource_blocks(|b| b.push((Asn::from_u32(64496), Asn::from_u32(64511))));
            }
            2 => {
                c.build_v6_resource_blocks(|b| b.push(Prefix::new(Ipv6Addr::from(0x2001_0db8u128 << 96), 32)));
            }
            _ => {
                c.set_v4_resources_inherit();
                c.set_v6_resources_inherit();
                c.set_as_resources_inherit();
            }
        }
        certs.push(c.into_cert(&signer, &signer.key(0)).expect("ca cert"));
    }
    // keep the decoded form: what a receiver of the message holds
    let certs: Vec<Cert> = certs
        .into_iter()
        .map(|c| Cert::decode(c.to_captured().as_slice()).expect("built certificate decodes"))
        .collect();

    let mut csrs = Vec::new();
    for i in 4..7usize {
        let der = Csr::construct_rpki_ca(&signer, &signer.key(i), &repo, &mft, if i == 5 { None } else { notify.as_ref() }).expect("csr");
        csrs.push(RpkiCaCsr::decode(der.as_slice()).expect("built CSR decodes"));
    }

    let mut idcerts = Vec::new();
    for i in [0usize, 3, 7] {
        let c = IdCert::new_ta(validity(), &signer.key(i), &signer).expect("id cert");
        idcerts.push(c.to_bytes().to_vec());
    }
    Pool { certs, csrs, idcerts }
}

pub fn pool() -> &'static Pool {
    static POOL: OnceLock<Pool> = OnceLock::new();
    POOL.get_or_init(build)
}
