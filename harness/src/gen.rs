//! Shared proptest strategies: boundary-dense integers.

use proptest::prelude::*;

/// u32 values dense at 0, max, powers of two and their neighbours.
pub fn dense_u32() -> BoxedStrategy<u32> {
    prop_oneof![
        3 => prop_oneof![Just(0u32), Just(1), Just(2), Just(3), Just(u32::MAX), Just(u32::MAX - 1), Just(u32::MAX - 2)],
        3 => (0u32..32, -1i64..=1).prop_map(|(k, d)| ((1u64 << k) as i64 + d).clamp(0, u32::MAX as i64) as u32),
        2 => 0u32..64,
        1 => (0u32..=32).prop_map(|k| if k == 0 { 0 } else { u32::MAX >> (32 - k) }),
        1 => (0u32..=32).prop_map(|k| if k == 32 { 0 } else { u32::MAX << k }),
        2 => any::<u32>(),
    ]
    .boxed()
}

/// u128 values dense at 0, max, powers of two and their neighbours, bit
/// patterns 2^k-1 and their complements.
pub fn dense_u128() -> BoxedStrategy<u128> {
    prop_oneof![
        3 => prop_oneof![Just(0u128), Just(1), Just(2), Just(u128::MAX), Just(u128::MAX - 1)],
        3 => (0u32..128, -1i32..=1).prop_map(|(k, d)| {
            let b = 1u128 << k;
            match d { -1 => b - 1, 1 => b.saturating_add(1), _ => b }
        }),
        1 => 0u128..64,
        1 => (0u32..=128).prop_map(|k| if k == 0 { 0 } else { u128::MAX >> (128 - k) }),
        2 => (0u32..=128).prop_map(|k| if k == 128 { 0 } else { u128::MAX << k }),
        2 => (any::<u128>(), 0u32..=128).prop_map(|(v, k)| if k == 128 { 0 } else { v & (u128::MAX << k) }),
        2 => any::<u128>(),
    ]
    .boxed()
}

/// Monotone index mapping (shrinks towards 0).
pub fn pick_idx(raw: u16, len: usize) -> usize {
    if len == 0 {
        0
    } else {
        ((raw as usize) * len) >> 16
    }
}

/// u128 that serialises as a hex string (serde_json `Value` cannot hold u128).
#[derive(Clone, Copy, PartialEq, Eq, PartialOrd, Ord, Hash)]
pub struct U128(pub u128);

impl std::fmt::Debug for U128 {
    fn fmt(&self, f: &mut std::fmt::Formatter) -> std::fmt::Result {
        write!(f, "0x{:x}", self.0)
    }
}

impl serde::Serialize for U128 {
    fn serialize<S: serde::Serializer>(&self, s: S) -> Result<S::Ok, S::Error> {
        s.serialize_str(&format!("{:x}", self.0))
    }
}

impl<'de> serde::Deserialize<'de> for U128 {
    fn deserialize<D: serde::Deserializer<'de>>(d: D) -> Result<Self, D::Error> {
        let s = String::deserialize(d)?;
        u128::from_str_radix(s.trim_start_matches("0x"), 16)
            .map(U128)
            .map_err(serde::de::Error::custom)
    }
}
