//! Shared by the three fuzz targets: panic handling (strict replay mode vs.
//! campaign mode with an allow-list of known panics) and a tiny PRNG for the
//! custom mutators.
//!
//! Modes
//! * default (strict): any panic aborts the process, libFuzzer records a crash.
//! * `VERIF_FUZZ_TOLERATE` set (campaign): the value is a list of panic
//!   signatures separated by `;;`. A panic whose signature is on the list is
//!   swallowed (the input is not added to the corpus) so that a campaign does
//!   not rediscover one known crash forever. Anything else still aborts.
//!   Signature format (same as vcheck C04): `panic:<file name>:<first 60
//!   characters of the message with digits replaced by #>`.

#![allow(dead_code)]

use std::cell::RefCell;
use std::panic;
use std::sync::OnceLock;

thread_local! {
    static LAST: RefCell<Option<String>> = const { RefCell::new(None) };
    static GUARDED: RefCell<bool> = const { RefCell::new(false) };
}

fn allow_list() -> &'static Option<Vec<String>> {
    static L: OnceLock<Option<Vec<String>>> = OnceLock::new();
    L.get_or_init(|| {
        std::env::var("VERIF_FUZZ_TOLERATE").ok().map(|v| {
            v.split(";;").map(|s| s.trim().to_string()).filter(|s| !s.is_empty()).collect()
        })
    })
}

pub fn signature(file: &str, msg: &str) -> String {
    let file = file.rsplit('/').next().unwrap_or(file);
    let m: String = msg
        .chars()
        .take_while(|c| *c != '\n')
        .take(60)
        .map(|c| if c.is_ascii_digit() { '#' } else { c })
        .collect();
    format!("panic:{}:{}", file, m.trim())
}

/// To be called from the `init:` expression of `fuzz_target!` (after
/// libfuzzer-sys has installed its aborting hook).
pub fn install_hook() {
    let prev = panic::take_hook();
    panic::set_hook(Box::new(move |info| {
        let file = info.location().map(|l| l.file().to_string()).unwrap_or_default();
        let msg = if let Some(s) = info.payload().downcast_ref::<&str>() {
            s.to_string()
        } else if let Some(s) = info.payload().downcast_ref::<String>() {
            s.clone()
        } else {
            String::new()
        };
        let sig = signature(&file, &msg);
        let guarded = GUARDED.with(|g| *g.borrow());
        let tolerated = allow_list().as_ref().map(|l| l.iter().any(|s| *s == sig)).unwrap_or(false);
        if guarded && tolerated {
            LAST.with(|l| *l.borrow_mut() = Some(sig));
            return; // unwinds into `guarded`
        }
        eprintln!("FUZZ-PANIC signature={}", sig);
        prev(info); // prints and aborts
    }));
}

/// Runs the oracle. Returns false if a tolerated panic was swallowed.
pub fn guarded(f: impl FnOnce()) -> bool {
    if allow_list().is_none() {
        f();
        return true;
    }
    GUARDED.with(|g| *g.borrow_mut() = true);
    let r = panic::catch_unwind(panic::AssertUnwindSafe(f));
    GUARDED.with(|g| *g.borrow_mut() = false);
    match r {
        Ok(()) => true,
        Err(_) => {
            // only tolerated panics unwind (the hook aborts otherwise)
            LAST.with(|l| l.borrow_mut().take());
            false
        }
    }
}

pub struct Rng(pub u64);

impl Rng {
    pub fn new(seed: u32) -> Self {
        Rng(0x9E37_79B9_7F4A_7C15u64 ^ ((seed as u64) << 17) ^ seed as u64)
    }
    pub fn next(&mut self) -> u32 {
        // splitmix64
        self.0 = self.0.wrapping_add(0x9E37_79B9_7F4A_7C15);
        let mut z = self.0;
        z = (z ^ (z >> 30)).wrapping_mul(0xBF58_476D_1CE4_E5B9);
        z = (z ^ (z >> 27)).wrapping_mul(0x94D0_49BB_1331_11EB);
        ((z ^ (z >> 31)) >> 16) as u32
    }
    pub fn below(&mut self, n: u32) -> u32 {
        if n == 0 { 0 } else { self.next() % n }
    }
    /// small values most of the time
    pub fn param(&mut self) -> u32 {
        if self.below(4) == 0 { self.next() } else { self.below(64) }
    }
}
