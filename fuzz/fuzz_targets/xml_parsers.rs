//! Parser halves of C09 / C11: first octet selects the XML parser, the rest is
//! the document. Oracle: no panic; if the parser accepts, writing the value
//! and parsing it again gives an equal value (round trip inside the target);
//! for RRDP snapshots and deltas a collecting `ProcessSnapshot` /
//! `ProcessDelta` implementation must see exactly what `Snapshot::parse` /
//! `Delta::parse` return.

#![no_main]

mod common;

use std::fmt::Debug;
use std::io::Read;

use libfuzzer_sys::{fuzz_target, Corpus};
use rpki::ca::idexchange::{ChildRequest, ParentResponse, PublisherRequest, RepositoryResponse};
use rpki::ca::{provisioning, publication};
use rpki::rrdp::{
    Delta, DeltaElement, Hash, NotificationFile, ObjectReader, ProcessDelta, ProcessError, ProcessSnapshot, Snapshot,
};
use rpki::uri;
use uuid::Uuid;

pub const N_PARSERS: u8 = 10;

/// parse -> write -> parse: the library's own output must parse, writing must
/// be stable from there on, and the re-parsed value must equal its own
/// re-parse. With `strict` the first value must equal the re-parsed one as well
/// (RRDP files: "a file written by the library parses back to an equal
/// value"). The CA protocol messages are compared from the second generation
/// on only: a value obtained by *parsing* may hold shapes no constructor
/// produces and the writer normalises (a publication PDU without tag is
/// written as tag="", a report_error without text gets the default text of
/// its code), which the properties — stated for messages constructed through
/// the public API — do not forbid.
fn round_trip<T: PartialEq + Debug, E>(what: &str, strict: bool, data: &[u8], parse: impl Fn(&[u8]) -> Result<T, E>, write: impl Fn(&T) -> Vec<u8>) {
    let Ok(v) = parse(data) else { return };
    let xml = write(&v);
    match parse(&xml) {
        Ok(v2) => {
            if strict && v != v2 {
                panic!("{}: round trip changed the value: {:?} != {:?}", what, v, v2);
            }
            let xml2 = write(&v2);
            if xml != xml2 {
                panic!("{}: writing is not stable", what);
            }
            match parse(&xml2) {
                Ok(v3) => {
                    if v2 != v3 {
                        panic!("{}: round trip of the library's own output changed the value: {:?} != {:?}", what, v2, v3);
                    }
                }
                Err(_) => panic!("{}: own output does not parse (second generation)", what),
            }
        }
        Err(_) => panic!("{}: own output does not parse: {}", what, String::from_utf8_lossy(&xml[..xml.len().min(600)])),
    }
}

#[derive(Default)]
struct Collect {
    meta: Option<(Uuid, u64)>,
    metas: u32,
    elements: Vec<(uri::Rsync, Option<Hash>, Option<Vec<u8>>)>,
}

impl ProcessSnapshot for Collect {
    type Err = ProcessError;
    fn meta(&mut self, session_id: Uuid, serial: u64) -> Result<(), ProcessError> {
        self.meta = Some((session_id, serial));
        self.metas += 1;
        Ok(())
    }
    fn publish(&mut self, uri: uri::Rsync, data: &mut ObjectReader) -> Result<(), ProcessError> {
        let mut buf = Vec::new();
        data.read_to_end(&mut buf)?;
        self.elements.push((uri, None, Some(buf)));
        Ok(())
    }
}

impl ProcessDelta for Collect {
    type Err = ProcessError;
    fn meta(&mut self, session_id: Uuid, serial: u64) -> Result<(), ProcessError> {
        self.meta = Some((session_id, serial));
        self.metas += 1;
        Ok(())
    }
    fn publish(&mut self, uri: uri::Rsync, hash: Option<Hash>, data: &mut ObjectReader) -> Result<(), ProcessError> {
        let mut buf = Vec::new();
        data.read_to_end(&mut buf)?;
        self.elements.push((uri, hash, Some(buf)));
        Ok(())
    }
    fn withdraw(&mut self, uri: uri::Rsync, hash: Hash) -> Result<(), ProcessError> {
        self.elements.push((uri, Some(hash), None));
        Ok(())
    }
}

fn to_vec(f: impl FnOnce(&mut Vec<u8>) -> Result<(), std::io::Error>) -> Vec<u8> {
    let mut v = Vec::new();
    f(&mut v).expect("writing into a Vec cannot fail");
    v
}

fn run(which: u8, doc: &[u8]) {
    match which % N_PARSERS {
        0 => {
            round_trip("rrdp notification", true, doc, |d| NotificationFile::parse(d), |v| to_vec(|w| v.write_xml(w)));
            if let Ok(n) = NotificationFile::parse_limited(doc, 3) {
                let _ = (n.delta_status().is_ok(), n.deltas().len());
            }
            if let Ok(mut n) = NotificationFile::parse(doc) {
                let _ = n.delta_status();
                let _ = n.has_matching_origins(n.snapshot().uri());
                for limit in [Some(2), Some(0), None, Some(usize::MAX)] {
                    let mut m = n.clone();
                    let _ = m.sort_and_verify_deltas(limit);
                    let _ = m.deltas().len();
                }
                n.sort_deltas();
                let _ = (n.session_id(), n.serial(), n.snapshot().uri().as_str().len(), n.deltas().len());
            }
        }
        1 => {
            round_trip("rrdp snapshot", true, doc, |d| Snapshot::parse(d), |v| to_vec(|w| v.write_xml(w)));
            let mut c = Collect::default();
            let processed = ProcessSnapshot::process(&mut c, doc);
            match (Snapshot::parse(doc), processed) {
                (Ok(s), Ok(())) => {
                    assert_eq!(c.meta, Some((s.session_id(), s.serial())), "snapshot meta differs");
                    assert_eq!(c.metas, 1, "meta called {} times", c.metas);
                    assert_eq!(c.elements.len(), s.elements().len(), "snapshot element count differs");
                    for (a, b) in c.elements.iter().zip(s.elements()) {
                        assert!(a.0 == *b.uri() && a.2.as_deref() == Some(b.data().as_ref()), "snapshot element differs");
                    }
                }
                (Err(_), Err(_)) => {}
                (a, b) => panic!("Snapshot::parse ok={} but collecting processor ok={}", a.is_ok(), b.is_ok()),
            }
        }
        2 => {
            round_trip("rrdp delta", true, doc, |d| Delta::parse(d), |v| to_vec(|w| v.write_xml(w)));
            let mut c = Collect::default();
            let processed = ProcessDelta::process(&mut c, doc);
            match (Delta::parse(doc), processed) {
                (Ok(s), Ok(())) => {
                    assert_eq!(c.meta, Some((s.session_id(), s.serial())), "delta meta differs");
                    assert_eq!(c.elements.len(), s.elements().len(), "delta element count differs");
                    for (a, b) in c.elements.iter().zip(s.elements()) {
                        let same = match b {
                            DeltaElement::Publish(p) => a.0 == *p.uri() && a.1.is_none() && a.2.as_deref() == Some(p.data().as_ref()),
                            DeltaElement::Update(u) => a.0 == *u.uri() && a.1 == Some(*u.hash()) && a.2.as_deref() == Some(u.data().as_ref()),
                            DeltaElement::Withdraw(x) => a.0 == *x.uri() && a.1 == Some(*x.hash()) && a.2.is_none(),
                        };
                        assert!(same, "delta element differs");
                    }
                }
                (Err(_), Err(_)) => {}
                (a, b) => panic!("Delta::parse ok={} but collecting processor ok={}", a.is_ok(), b.is_ok()),
            }
        }
        3 => round_trip("rfc6492 message", false, doc, |d| provisioning::Message::decode(d), |v| v.to_xml_bytes().to_vec()),
        4 => round_trip("rfc8181 message", false, doc, |d| publication::Message::decode(d), |v| v.to_xml_bytes().to_vec()),
        5 => round_trip("rfc8183 child request", false, doc, |d| ChildRequest::parse(d), |v| v.to_xml_vec()),
        6 => round_trip("rfc8183 parent response", false, doc, |d| ParentResponse::parse(d), |v| v.to_xml_vec()),
        7 => round_trip("rfc8183 publisher request", false, doc, |d| PublisherRequest::parse(d), |v| v.to_xml_vec()),
        8 => round_trip("rfc8183 repository response", false, doc, |d| RepositoryResponse::parse(d), |v| v.to_xml_vec()),
        _ => {
            // every parser on the same document: none may panic
            let _ = NotificationFile::parse(doc).is_ok();
            let _ = Snapshot::parse(doc).is_ok();
            let _ = Delta::parse(doc).is_ok();
            let _ = provisioning::Message::decode(doc).is_ok();
            let _ = publication::Message::decode(doc).is_ok();
            let _ = ChildRequest::parse(doc).map(|r| r.validate().is_ok()).is_ok();
            let _ = ParentResponse::parse(doc).map(|r| r.validate().is_ok()).is_ok();
            let _ = PublisherRequest::parse(doc).map(|r| r.validate().is_ok()).is_ok();
            let _ = RepositoryResponse::parse(doc).map(|r| r.validate().is_ok()).is_ok();
        }
    }
}

fuzz_target!(init: { common::install_hook(); }, |data: &[u8]| -> Corpus {
    let Some((&which, doc)) = data.split_first() else { return Corpus::Reject };
    if common::guarded(|| run(which, doc)) { Corpus::Keep } else { Corpus::Reject }
});
