//! Reader half of C07: a byte stream is fed to the RTR PDU readers through an
//! in-memory `AsyncRead` that never returns `Pending`, serves the data in
//! small chunks and counts reads at the end of the stream.
//!
//! Input: octet 0 = reading mode, octet 1 = chunk size (0: everything at
//! once), rest = the stream. Announced PDU lengths above 1 MiB are clamped in
//! a copy of the stream before it is handed to the library: a router key or
//! ASPA PDU legitimately allocates the announced size before reading, which
//! would only trip libFuzzer's malloc limit (the stream is far shorter than
//! 1 MiB, so the reader runs into the end of the stream either way).
//!
//! Oracle: no panic; every read future completes within the polls it is given
//! (the reader never pends, so one poll suffices); the exhausted reader is
//! polled at most twice per read call ("no spin": after 16 reads at the end of
//! the stream the reader fails the operation with a marker error so that the
//! run ends, and the target reports the spin).

#![no_main]

mod common;

use std::future::Future;
use std::io;
use std::pin::{pin, Pin};
use std::task::{Context, Poll, Waker};

use libfuzzer_sys::{fuzz_target, Corpus};
use rpki::rtr::pdu;
use tokio::io::{AsyncRead, ReadBuf};

const MAX_ANNOUNCED: u32 = 1 << 20;

struct MemReader<'a> {
    data: &'a [u8],
    pos: usize,
    chunk: usize,
    eof_reads: u32,
    spun: bool,
}

impl AsyncRead for MemReader<'_> {
    fn poll_read(mut self: Pin<&mut Self>, _: &mut Context<'_>, buf: &mut ReadBuf<'_>) -> Poll<io::Result<()>> {
        if buf.remaining() == 0 {
            return Poll::Ready(Ok(()));
        }
        let left = self.data.len() - self.pos;
        if left == 0 {
            self.eof_reads += 1;
            if self.eof_reads > 16 {
                self.spun = true;
                return Poll::Ready(Err(io::Error::new(io::ErrorKind::Other, "verif: reader polled 16 times at end of stream")));
            }
            return Poll::Ready(Ok(()));
        }
        let mut n = left.min(buf.remaining());
        if self.chunk > 0 {
            n = n.min(self.chunk);
        }
        let at = self.pos;
        buf.put_slice(&self.data[at..at + n]);
        self.pos += n;
        Poll::Ready(Ok(()))
    }
}

/// Polls a future that cannot pend on I/O; more than a few polls means it
/// yields without making progress.
fn drive<F: Future>(f: F) -> F::Output {
    let mut f = pin!(f);
    let mut cx = Context::from_waker(Waker::noop());
    for _ in 0..64 {
        if let Poll::Ready(v) = f.as_mut().poll(&mut cx) {
            return v;
        }
    }
    panic!("rtr read future still pending after 64 polls of a reader that never pends");
}

/// Walks the stream along the length fields and clamps oversized ones.
fn clamp_lengths(stream: &mut [u8]) {
    let mut pos = 0usize;
    while pos + 8 <= stream.len() {
        let len = u32::from_be_bytes([stream[pos + 4], stream[pos + 5], stream[pos + 6], stream[pos + 7]]);
        if len > MAX_ANNOUNCED {
            stream[pos + 4..pos + 8].copy_from_slice(&MAX_ANNOUNCED.to_be_bytes());
            break;
        }
        if len < 8 {
            break;
        }
        pos += len as usize;
    }
}

fn touch_payload(p: &pdu::Payload) {
    let _ = (p.version(), p.flags(), p.as_partial_slice().len());
    let _ = p.to_payload().map(|(a, pl)| (a, format!("{:?}", pl).len()));
    match p {
        pdu::Payload::V4(x) => {
            let _ = (x.prefix(), x.prefix_len(), x.max_len(), x.asn(), x.flags());
        }
        pdu::Payload::V6(x) => {
            let _ = (x.prefix(), x.prefix_len(), x.max_len(), x.asn(), x.flags());
        }
        pdu::Payload::RouterKey(k) => {
            let _ = (k.key_identifier(), k.asn(), k.key_info().as_slice().len(), k.size(), k.flags());
        }
        pdu::Payload::Aspa(a) => {
            let _ = (a.customer(), a.providers().len(), a.providers().iter().count(), a.size(), a.flags());
            if a.providers().len() / 4 <= u16::MAX as usize {
                let _ = a.providers().asn_count();
            }
        }
        _ => {}
    }
}

fn run(mode: u8, chunk: u8, stream: &[u8]) {
    let mut owned = stream.to_vec();
    clamp_lengths(&mut owned);
    let mut r = MemReader { data: &owned, pos: 0, chunk: chunk as usize, eof_reads: 0, spun: false };
    let mut rounds = 0u32;
    loop {
        rounds += 1;
        if rounds > 100_000 {
            panic!("more than 100000 PDUs read from {} octets", owned.len());
        }
        let before = r.pos;
        r.eof_reads = 0;
        let go_on = match mode % 5 {
            0 => match drive(pdu::Payload::read(&mut r)) {
                Ok(Ok(Some(p))) => {
                    touch_payload(&p);
                    true
                }
                Ok(Ok(None)) => true,
                Ok(Err(eod)) => {
                    let _ = (eod.version(), eod.session(), eod.serial(), eod.state(), eod.timing());
                    true
                }
                Err(_) => false,
            },
            1 => {
                // client side: cache response, payload ..., end of data
                if before == 0 {
                    match drive(pdu::CacheResponse::try_read(&mut r)) {
                        Ok(Ok(c)) => {
                            let _ = (c.version(), c.session());
                            true
                        }
                        Ok(Err(h)) => drive(pdu::Error::skip_payload(h, &mut r)).is_ok(),
                        Err(_) => false,
                    }
                } else {
                    match drive(pdu::Payload::read(&mut r)) {
                        Ok(Ok(Some(p))) => {
                            touch_payload(&p);
                            true
                        }
                        Ok(Ok(None)) => true,
                        _ => false,
                    }
                }
            }
            2 => {
                // server side: query header, then the rest by type
                match drive(pdu::Header::read(&mut r)) {
                    Ok(h) => {
                        let _ = (h.version(), h.pdu(), h.session(), h.length(), h.pdu_len().is_ok());
                        match h.pdu() {
                            pdu::SerialQuery::PDU => drive(pdu::SerialQuery::read_payload(h, &mut r)).map(|q| q.version()).is_ok(),
                            pdu::ResetQuery::PDU => drive(pdu::ResetQuery::read_payload(h, &mut r)).map(|q| q.version()).is_ok(),
                            pdu::Error::PDU => drive(pdu::Error::skip_payload(h, &mut r)).is_ok(),
                            pdu::SerialNotify::PDU => drive(pdu::SerialNotify::read_payload(h, &mut r)).is_ok(),
                            pdu::CacheReset::PDU => drive(pdu::CacheReset::read_payload(h, &mut r)).is_ok(),
                            pdu::EndOfData::PDU => drive(pdu::EndOfData::read_payload(h, &mut r)).is_ok(),
                            pdu::RouterKey::PDU => drive(pdu::RouterKey::read_payload(h, &mut r)).is_ok(),
                            pdu::Aspa::PDU => drive(pdu::Aspa::read_payload(h, &mut r)).is_ok(),
                            pdu::Ipv4Prefix::PDU => drive(pdu::Ipv4Prefix::read_payload(h, &mut r)).is_ok(),
                            pdu::Ipv6Prefix::PDU => drive(pdu::Ipv6Prefix::read_payload(h, &mut r)).is_ok(),
                            _ => false,
                        }
                    }
                    Err(_) => false,
                }
            }
            3 => {
                // typed readers chosen by the type octet that comes next
                match owned.get(before + 1).copied() {
                    Some(0) => drive(pdu::SerialNotify::read(&mut r)).is_ok(),
                    Some(1) => drive(pdu::SerialQuery::read(&mut r)).is_ok(),
                    Some(2) => drive(pdu::ResetQuery::read(&mut r)).is_ok(),
                    Some(3) => drive(pdu::CacheResponse::read(&mut r)).is_ok(),
                    Some(4) => drive(pdu::Ipv4Prefix::read(&mut r)).is_ok(),
                    Some(6) => drive(pdu::Ipv6Prefix::read(&mut r)).is_ok(),
                    Some(8) => drive(pdu::CacheReset::read(&mut r)).is_ok(),
                    Some(9) => drive(pdu::RouterKey::read(&mut r)).is_ok(),
                    Some(11) => drive(pdu::Aspa::read(&mut r)).is_ok(),
                    Some(7) => drive(pdu::EndOfDataV1::read(&mut r)).is_ok() ,
                    Some(_) => drive(pdu::SerialNotify::try_read(&mut r)).map(|x| x.is_ok()).unwrap_or(false),
                    None => false,
                }
            }
            _ => {
                // first-reply readers of the client
                match drive(pdu::SerialNotify::try_read(&mut r)) {
                    Ok(Ok(n)) => {
                        let _ = (n.version(), n.session());
                        true
                    }
                    Ok(Err(h)) => drive(pdu::Error::skip_payload(h, &mut r)).is_ok(),
                    Err(_) => false,
                }
            }
        };
        if r.spun || r.eof_reads > 2 {
            panic!("reader at end of stream was polled {} times by one read call (mode {})", r.eof_reads, mode % 5);
        }
        if !go_on || r.pos == before {
            break;
        }
    }
}

fuzz_target!(init: { common::install_hook(); }, |data: &[u8]| -> Corpus {
    if data.len() < 2 {
        return Corpus::Reject;
    }
    if common::guarded(|| run(data[0], data[1], &data[2..])) { Corpus::Keep } else { Corpus::Reject }
});
