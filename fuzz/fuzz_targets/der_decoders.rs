//! C04 fuzz target: first octet selects entry point and strictness (see
//! `c04_walk::split_selector`), the rest is the object. Oracle = the C04
//! accessor walk (no panic) + the allocation bound, both shared with vcheck.
//! Mutations are DER-aware (shared TLV operators), falling back to libFuzzer's
//! own mutator a quarter of the time.

#![no_main]

#[path = "../../harness/src/c04_tlv.rs"]
mod tlv;
#[path = "../../harness/src/c04_walk.rs"]
mod walk;
mod common;

use libfuzzer_sys::{fuzz_crossover, fuzz_mutator, fuzz_target, fuzzer_mutate, Corpus};

#[global_allocator]
static ALLOC: walk::CountingAlloc = walk::CountingAlloc;

fuzz_target!(init: { common::install_hook(); let _ = walk::fixed(); }, |data: &[u8]| -> Corpus {
    let Some((&sel, obj)) = data.split_first() else { return Corpus::Reject };
    let (entry, strict) = walk::split_selector(sel);
    let ok = common::guarded(|| {
        let (_out, stats) = walk::measure(|| walk::decode_and_walk(entry, strict, obj));
        if stats.active {
            if let Err(which) = walk::within_bounds(obj.len(), &stats, 1) {
                panic!("{}: {} allocation calls, peak {} live bytes for {} input octets", which, stats.calls, stats.peak, obj.len());
            }
        }
    });
    if ok { Corpus::Keep } else { Corpus::Reject }
});

/// A few valid objects used as splice donors by the mutator.
static DONORS: &[&[u8]] = &[
    include_bytes!("/repo/test-data/repository/ta.cer"),
    include_bytes!("/repo/test-data/repository/ca1.cer"),
    include_bytes!("/repo/test-data/repository/ta.crl"),
    include_bytes!("/repo/test-data/repository/ca1.mft"),
    include_bytes!("/repo/test-data/repository/example-ripe.roa"),
    include_bytes!("/repo/test-data/repository/aspa-content.der"),
    include_bytes!("/repo/test-data/ca/drl-csr.der"),
    include_bytes!("/repo/test-data/ca/router-csr.der"),
    include_bytes!("/repo/test-data/ca/id_ta.cer"),
    include_bytes!("/repo/test-data/ca/rfc6492/list.der"),
    include_bytes!("/repo/test-data/crypto/rsa-key.public.der"),
];

fn random_op(rng: &mut common::Rng) -> tlv::Op {
    let kind = rng.below(tlv::N_KINDS as u32) as u8;
    if tlv::wide_params(kind) && rng.below(8) != 0 {
        return tlv::Op { kind, sel: rng.next() as u16, a: rng.below(4096), b: rng.below(4096) };
    }
    tlv::Op { kind, sel: rng.next() as u16, a: rng.param(), b: rng.param() }
}

fn mutate_object(entry: u8, obj: &mut Vec<u8>, rng: &mut common::Rng, max: usize) {
    let donor = |a: u32| DONORS[a as usize % DONORS.len()].to_vec();
    // libFuzzer stacks up to -mutate_depth calls of the mutator on one input
    let n = if rng.below(5) == 0 { 2 } else { 1 };
    if entry == walk::TAL {
        // mutate the key info inside the base64 block, keep the text around it
        if let Some((head, b64)) = tlv::split_tal(obj) {
            let head = head.to_vec();
            let mut der = tlv::unb64(b64);
            for _ in 0..n {
                tlv::apply(&mut der, random_op(rng), &donor, max);
            }
            let mut out = head;
            out.extend(tlv::b64(&der));
            if rng.below(3) == 0 {
                tlv::raw(&mut out, random_op(rng));
            }
            *obj = out;
            return;
        }
    }
    for _ in 0..n {
        tlv::apply(obj, random_op(rng), &donor, max);
    }
}

fuzz_mutator!(|data: &mut [u8], size: usize, max_size: usize, seed: u32| {
    let mut rng = common::Rng::new(seed);
    if size < 2 || max_size < 2 || rng.below(4) == 0 {
        return fuzzer_mutate(data, size, max_size);
    }
    let mut sel = data[0];
    if rng.below(16) == 0 {
        // switch strictness or entry point
        sel = if rng.below(2) == 0 { sel ^ 0x80 } else { walk::selector(rng.below(walk::N_ENTRIES as u32) as u8, sel & 0x80 != 0) };
    }
    let (entry, _) = walk::split_selector(sel);
    let mut obj = data[1..size].to_vec();
    mutate_object(entry, &mut obj, &mut rng, max_size - 1);
    let n = obj.len().min(max_size - 1);
    data[0] = sel;
    data[1..1 + n].copy_from_slice(&obj[..n]);
    1 + n
});

fuzz_crossover!(|data1: &[u8], data2: &[u8], out: &mut [u8], seed: u32| {
    // subtree of the second input spliced over / behind a node of the first
    let mut rng = common::Rng::new(seed);
    if data1.len() < 2 || data2.len() < 2 || out.len() < 2 {
        let n = data1.len().min(out.len());
        out[..n].copy_from_slice(&data1[..n]);
        return n;
    }
    let mut obj = data1[1..].to_vec();
    let other = data2[1..].to_vec();
    let donor = move |_: u32| other.clone();
    let op = tlv::Op { kind: 6, sel: rng.next() as u16, a: 0, b: rng.next() };
    tlv::apply(&mut obj, op, &donor, out.len() - 1);
    let n = obj.len().min(out.len() - 1);
    out[0] = data1[0];
    out[1..1 + n].copy_from_slice(&obj[..n]);
    1 + n
});
