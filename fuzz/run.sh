#!/bin/bash
# Coverage-guided part of the harness (libFuzzer through cargo-fuzz).
#
#   fuzz/run.sh <der_decoders|xml_parsers|rtr_stream> quick|thorough
#
# 1. builds the target against /repo's working tree (release + ASan, target dir
#    /verif/fuzz/target; RPKI_SRC=<dir> builds against another checkout into
#    /verif/fuzz/target/alt, for sensitivity experiments only),
# 2. replays /verif/corpus/<target> and /verif/regress/fuzz-<target>/ strictly:
#    any crash => "FUZZ-CRASH target=<t> input=<path>" and exit 1,
# 3. quick: fixed-work burst `-runs=N -seed=VERIF_SEED` (0 is remapped, libFuzzer
#    treats 0 as "random") on a fresh copy of the corpus;
#    thorough: wall-clock bounded campaign, -jobs=16 -max_total_time=$VERIF_FUZZ_TIME (600 s),
#    panics listed as open findings in known_findings.json are tolerated in-target
#    (VERIF_FUZZ_TOLERATE) so that the search continues behind them,
# 4. crashes are copied to /verif/failures/fuzz-<target>/ and reported (exit 1);
#    libFuzzer timeouts / out-of-memory reports are inconclusive (exit 2), never 1,
# 5. the last line on stdout is a one-line JSON summary.
set -u
FUZZ_DIR="$(cd "$(dirname "$0")" && pwd)"
VERIF_DIR="$(dirname "$FUZZ_DIR")"
TARGET="${1:-}"
TIER="${2:-quick}"
case "$TARGET" in
  der_decoders) RUNS=70000;  MAXLEN=16384; PROPS="C04" ;;
  xml_parsers)  RUNS=150000; MAXLEN=8192;  PROPS="C09 C11" ;;
  rtr_stream)   RUNS=800000; MAXLEN=4096;  PROPS="C07" ;;
  *) echo "usage: $0 der_decoders|xml_parsers|rtr_stream quick|thorough" >&2; exit 2 ;;
esac
RUNS="${VERIF_FUZZ_RUNS:-$RUNS}"
SEED="${VERIF_SEED:-1}"
# libFuzzer: -seed=0 means "pick one at random"
SEED=$(( (SEED % 4294967295 + 4294967295) % 4294967295 ))
[ "$SEED" -eq 0 ] && SEED=4242424242
export CARGO_NET_OFFLINE=true
summary() { # rc, phase, extra json fields
  echo "{\"target\":\"$TARGET\",\"tier\":\"$TIER\",\"seed\":$SEED,\"exit\":$1,\"phase\":\"$2\"${3:+,$3}}"
}

#--- build
LOG="$(mktemp)"
if [ -n "${RPKI_SRC:-}" ]; then
  # cargo-fuzz cannot pass --config to cargo; cargo reads config from the cwd upwards
  WORK="$(mktemp -d)"
  mkdir -p "$WORK/.cargo" "$WORK/tools"
  printf 'paths = ["%s"]\n[net]\noffline = true\n' "$RPKI_SRC" > "$WORK/.cargo/config.toml"
  cp "$VERIF_DIR/Cargo.toml" "$WORK/Cargo.toml"; cp "$VERIF_DIR/tools/stub.rs" "$WORK/tools/stub.rs"
  ln -s "$FUZZ_DIR" "$WORK/fuzz"
  TDIR="$FUZZ_DIR/target/alt"
  (cd "$WORK" && cargo +nightly fuzz build --fuzz-dir fuzz --target-dir "$TDIR" "$TARGET") >"$LOG" 2>&1; brc=$?
  rm -rf "$WORK"
else
  TDIR="$FUZZ_DIR/target"
  (cd "$VERIF_DIR" && cargo +nightly fuzz build --fuzz-dir fuzz --target-dir "$TDIR" "$TARGET") >"$LOG" 2>&1; brc=$?
fi
if [ $brc -ne 0 ]; then
  cat "$LOG" >&2; rm -f "$LOG"
  echo "BUILD-FAILED: fuzz target $TARGET does not build against the current tree" >&2
  summary 2 build; exit 2
fi
rm -f "$LOG"
BIN="$TDIR/x86_64-unknown-linux-gnu/release/$TARGET"
export ASAN_OPTIONS="detect_odr_violation=0:detect_leaks=0:abort_on_error=1:symbolize=0"

FAILDIR="$VERIF_DIR/failures/fuzz-$TARGET"
ART="$FUZZ_DIR/artifacts/$TARGET"
mkdir -p "$ART"

#--- strict replay of committed inputs
unset VERIF_FUZZ_TOLERATE
REPLAY_DIRS=()
[ -d "$VERIF_DIR/corpus/$TARGET" ] && REPLAY_DIRS+=("$VERIF_DIR/corpus/$TARGET")
[ -d "$VERIF_DIR/regress/fuzz-$TARGET" ] && REPLAY_DIRS+=("$VERIF_DIR/regress/fuzz-$TARGET")
replayed=0
if [ ${#REPLAY_DIRS[@]} -gt 0 ]; then
  replayed=$(find "${REPLAY_DIRS[@]}" -type f | wc -l)
  RLOG="$(mktemp)"
  # fast pass: all files in one process
  if ! find "${REPLAY_DIRS[@]}" -type f -print0 | sort -z | xargs -0 "$BIN" -timeout=20 -rss_limit_mb=4096 -artifact_prefix="$ART/replay-" >"$RLOG" 2>&1; then
    # slow pass: one process per file to name the culprit(s)
    rc=0
    while IFS= read -r -d '' f; do
      "$BIN" -timeout=20 -rss_limit_mb=4096 -artifact_prefix="$ART/replay-" "$f" >"$RLOG" 2>&1; frc=$?
      if [ $frc -ne 0 ]; then
        if grep -q "ERROR: libFuzzer: timeout\|ERROR: libFuzzer: out-of-memory" "$RLOG"; then
          echo "FUZZ-INCONCLUSIVE target=$TARGET input=$f (timeout / out of memory)" ; [ $rc -eq 0 ] && rc=2
        else
          grep -m1 "FUZZ-PANIC\|panicked at\|ERROR: AddressSanitizer\|deadly signal" "$RLOG" >&2
          echo "FUZZ-CRASH target=$TARGET input=$f"; rc=1
        fi
      fi
    done < <(find "${REPLAY_DIRS[@]}" -type f -print0 | sort -z)
    rm -f "$RLOG"
    if [ $rc -ne 0 ]; then summary $rc replay "\"replayed\":$replayed"; exit $rc; fi
  fi
  rm -f "$RLOG"
fi

#--- campaign
# open findings of the properties this target serves are tolerated by signature
TOL="$(python3 - "$VERIF_DIR/known_findings.json" $PROPS <<'EOF'
import json, sys
try:
    d = json.load(open(sys.argv[1]))
except Exception:
    d = {}
props = set(sys.argv[2:])
print(";;".join(e.get("signature", "") for e in d.get("open", []) if e.get("property") in props and e.get("signature", "").startswith("panic:")))
EOF
)"
[ -n "${VERIF_FUZZ_TOLERATE_EXTRA:-}" ] && TOL="$TOL;;$VERIF_FUZZ_TOLERATE_EXTRA"
[ -n "$TOL" ] && export VERIF_FUZZ_TOLERATE="$TOL"

WORKC="$FUZZ_DIR/corpus-work/$TARGET-$$"
rm -rf "$WORKC"; mkdir -p "$WORKC/corpus" "$WORKC/art"
[ -d "$VERIF_DIR/corpus/$TARGET" ] && cp "$VERIF_DIR/corpus/$TARGET"/* "$WORKC/corpus/" 2>/dev/null
CLOG="$WORKC/fuzz.log"
COMMON=(-seed="$SEED" -max_len="$MAXLEN" -timeout=25 -rss_limit_mb=4096 -artifact_prefix="$WORKC/art/" -print_final_stats=1 -mutate_depth=3)
t0=$(date +%s)
if [ "$TIER" = "thorough" ]; then
  (cd "$WORKC" && "$BIN" "${COMMON[@]}" -jobs="${VERIF_FUZZ_JOBS:-16}" -workers="${VERIF_FUZZ_JOBS:-16}" -max_total_time="${VERIF_FUZZ_TIME:-600}" corpus >"$CLOG" 2>&1); crc=$?
  cat "$WORKC"/fuzz-*.log >>"$CLOG" 2>/dev/null
else
  (cd "$WORKC" && "$BIN" "${COMMON[@]}" -runs="$RUNS" corpus >"$CLOG" 2>&1); crc=$?
fi
t1=$(date +%s)

stats="$(python3 - "$CLOG" <<'EOF'
import re, sys
txt = open(sys.argv[1], errors="replace").read()
def allv(k):
    return [int(x) for x in re.findall(r"stat::%s:\s+(\d+)" % k, txt)]
execs = sum(allv("number_of_executed_units"))
eps = sum(allv("average_exec_per_sec"))
new = sum(allv("new_units_added"))
rss = max(allv("peak_rss_mb") or [0])
cov = ft = corp = 0
for m in re.finditer(r"cov: (\d+) ft: (\d+) corp: (\d+)", txt):
    cov, ft, corp = max(cov, int(m.group(1))), max(ft, int(m.group(2))), max(corp, int(m.group(3)))
print('"execs":%d,"exec_per_s":%d,"new_units":%d,"corpus":%d,"cov":%d,"features":%d,"peak_rss_mb":%d' % (execs, eps, new, corp, cov, ft, rss))
EOF
)"
stats="$stats,\"replayed\":$replayed,\"wall_s\":$((t1 - t0))"

rc=0
spurious=0
shopt -s nullglob
arts=("$WORKC"/art/*)
if [ ${#arts[@]} -gt 0 ]; then
  mkdir -p "$FAILDIR"
  for a in "${arts[@]}"; do
    b="$(basename "$a")"
    # Every artifact is confirmed by a strict single replay in a fresh process
    # with a generous time limit: under heavy machine load libFuzzer reports
    # "timeouts" for inputs that take a millisecond, and those say nothing.
    ( unset VERIF_FUZZ_TOLERATE; "$BIN" -timeout=120 -rss_limit_mb=4096 -artifact_prefix="$WORKC/art/confirm-" "$a" >"$WORKC/confirm.log" 2>&1 ); arc=$?
    case "$b" in
      timeout-*|oom-*|slow-unit-*)
        if [ $arc -eq 0 ]; then
          spurious=$((spurious + 1))
        else
          cp "$a" "$FAILDIR/$b"
          echo "FUZZ-INCONCLUSIVE target=$TARGET input=$FAILDIR/$b"; [ $rc -eq 0 ] && rc=2
        fi ;;
      *)
        cp "$a" "$FAILDIR/$b"
        if [ $arc -ne 0 ]; then
          grep -m3 "FUZZ-PANIC" "$CLOG" >&2; echo "FUZZ-CRASH target=$TARGET input=$FAILDIR/$b"; rc=1
        else
          echo "FUZZ-INCONCLUSIVE target=$TARGET input=$FAILDIR/$b (crash artifact that does not reproduce on replay)"; [ $rc -eq 0 ] && rc=2
        fi ;;
    esac
  done
elif [ $crc -ne 0 ]; then
  tail -5 "$CLOG" >&2
  echo "FUZZ-INCONCLUSIVE target=$TARGET: libFuzzer ended with status $crc without leaving an artifact"
  rc=2
fi
stats="$stats,\"spurious_timeouts\":$spurious"
[ -z "${VERIF_FUZZ_KEEP:-}" ] && rm -rf "$WORKC"
summary $rc "$TIER" "$stats"
exit $rc
